(* Generic (any number type) facts about all 22 indicators through the uniform view of Generic.v:
   WF is established by constructors and preserved by next / next_bar / reset / serde, none of which
   can panic from a WF state; parameters never change; reset = new for indicators without a
   Minimum/Maximum inside. *)
From Coq Require Import Lia.
From TA Require Import Base Model Generic Proofs.Prims Proofs.WF.
Open Scope N_scope.

Section GP.
Context {F : Type} (O : Ops F).

Definition wfk (s : @Ema F) := wf_ema s /\ ema_kc O s.

Definition wf_bb (s : @Bb F) := wf_sd (bb_sd s) /\ sd_period (bb_sd s) = bb_period s.
Definition wf_atr (s : @Atr F) := wfk (atr_ema s).
Definition wf_rsi (s : @Rsi F) :=
  wfk (rsi_up s) /\ wfk (rsi_down s) /\ ema_period (rsi_up s) = rsi_period s /\ ema_period (rsi_down s) = rsi_period s.
Definition wf_fast (s : @Fast F) :=
  wf_min (fast_minimum s) /\ wf_max (fast_maximum s) /\
  min_period (fast_minimum s) = fast_period s /\ max_period (fast_maximum s) = fast_period s.
Definition wf_slow (s : @Slow F) := wf_fast (slow_fast s) /\ wfk (slow_ema s).
Definition wf_macd (s : @Macd F) := wfk (macd_fast s) /\ wfk (macd_slow s) /\ wfk (macd_signal s).
Definition wf_ppo (s : @Ppo F) := wfk (ppo_fast s) /\ wfk (ppo_slow s) /\ wfk (ppo_signal s).
Definition wf_kc (s : @Kc F) :=
  wf_atr (kc_atr s) /\ wfk (kc_ema s) /\ ema_period (atr_ema (kc_atr s)) = kc_period s /\ ema_period (kc_ema s) = kc_period s.
Definition wf_ce (s : @Ce F) :=
  wf_atr (ce_atr s) /\ wf_min (ce_min s) /\ wf_max (ce_max s) /\
  min_period (ce_min s) = ema_period (atr_ema (ce_atr s)) /\ max_period (ce_max s) = ema_period (atr_ema (ce_atr s)).
Definition wf_cci (s : @Cci F) :=
  wf_sma (cci_sma s) /\ wf_mad (cci_mad s) /\ mad_period (cci_mad s) = sma_period (cci_sma s).

Definition WF (s : @St F) : Prop :=
  match s with
  | SSma s => wf_sma s | SEma s => wfk s | SWma s => wf_wma s | SSd s => wf_sd s | SMad s => wf_mad s
  | SMin s => wf_min s | SMax s => wf_max s | SBb s => wf_bb s | STr _ => True | SAtr s => wf_atr s
  | SRsi s => wf_rsi s | SFast s => wf_fast s | SSlow s => wf_slow s | SRoc s => wf_roc s | SEr s => wf_er s
  | SMacd s => wf_macd s | SPpo s => wf_ppo s | SKc s => wf_kc s | SCe s => wf_ce s | SCci s => wf_cci s
  | SMfi s => wf_mfi s | SObv _ => True end.

(* the constructor arguments, read back from a state *)
Definition params_of (s : @St F) : @Params F :=
  match s with
  | SSma s => mkParams (sma_period s) 0 0 (zero O)
  | SEma s => mkParams (ema_period s) 0 0 (zero O)
  | SWma s => mkParams (wma_period s) 0 0 (zero O)
  | SSd s => mkParams (sd_period s) 0 0 (zero O)
  | SMad s => mkParams (mad_period s) 0 0 (zero O)
  | SMin s => mkParams (min_period s) 0 0 (zero O)
  | SMax s => mkParams (max_period s) 0 0 (zero O)
  | SBb s => mkParams (bb_period s) 0 0 (bb_multiplier s)
  | STr _ => mkParams 0 0 0 (zero O)
  | SAtr s => mkParams (ema_period (atr_ema s)) 0 0 (zero O)
  | SRsi s => mkParams (rsi_period s) 0 0 (zero O)
  | SFast s => mkParams (fast_period s) 0 0 (zero O)
  | SSlow s => mkParams (fast_period (slow_fast s)) (ema_period (slow_ema s)) 0 (zero O)
  | SRoc s => mkParams (roc_period s) 0 0 (zero O)
  | SEr s => mkParams (er_period s) 0 0 (zero O)
  | SMacd s => mkParams (ema_period (macd_fast s)) (ema_period (macd_slow s)) (ema_period (macd_signal s)) (zero O)
  | SPpo s => mkParams (ema_period (ppo_fast s)) (ema_period (ppo_slow s)) (ema_period (ppo_signal s)) (zero O)
  | SKc s => mkParams (kc_period s) 0 0 (kc_multiplier s)
  | SCe s => mkParams (ema_period (atr_ema (ce_atr s))) 0 0 (ce_multiplier s)
  | SCci s => mkParams (sma_period (cci_sma s)) 0 0 (zero O)
  | SMfi s => mkParams (mfi_period s) 0 0 (zero O)
  | SObv _ => mkParams 0 0 0 (zero O)
  end.

(* ---------------- EMA-based helpers ---------------- *)
Lemma wfk_new p s : ema_new O p = Ok s -> wfk s /\ ema_period s = p /\ p <> 0.
Proof.
  intros H. apply ema_new_inv in H as (H1 & H2 & H3 & H4). repeat split; try assumption.
  subst s. unfold ema_kc. reflexivity.
Qed.

Lemma wfk_next s x : wfk s -> wfk (fst (ema_next O s x)) /\ ema_period (fst (ema_next O s x)) = ema_period s.
Proof.
  intros [H1 H2]. pose proof (ema_next_wf O s x H1) as (A & B & C).
  split; [split; [exact A|]|exact B]. apply ema_next_kc. exact H2.
Qed.

Lemma wfk_reset s : wfk s -> wfk (ema_reset O s) /\ ema_period (ema_reset O s) = ema_period s.
Proof. intros [H1 H2]. split; [split; [exact H1 | apply ema_reset_kc; exact H2] | reflexivity]. Qed.

Lemma ema_new_of_ok p : p <> 0 -> exists s, ema_new O p = Ok s.
Proof. intros H. rewrite ema_new_ok by exact H. eauto. Qed.

(* ---------------- constructors ---------------- *)
Ltac inv_bind H a Ha := apply bind_ok_inv in H as (a & Ha & H).
Ltac fin3 := let i := fresh "i" in let Hi := fresh "Hi" in intros i Hi; destruct i as [|[|[|i]]]; cbn in *; lia.
Ltac wfs := cbn [WF]; unfold wf_bb, wf_atr, wf_rsi, wf_fast, wf_slow, wf_macd, wf_ppo, wf_kc, wf_ce, wf_cci; cbn;
  repeat (first [assumption | split]); cbn; try congruence; try lia.
Ltac fin := split; [wfs|split; [reflexivity|fin3]].

Theorem new_WF : forall k p s, new O k p = Ok s -> WF s /\ kind_of s = k /\
  (forall i, (i < n_periods k)%nat -> nth i [p1 p; p2 p; p3 p] 0 <> 0).
Proof.
  intros k p s H. destruct k; cbn in H; unfold rmap in H;
    try (inv_bind H x Hx; injection H as <-).
  - apply sma_new_inv in Hx as (A & B & C & D). fin.
  - apply wfk_new in Hx as (A & B & C). fin.
  - apply wma_new_inv in Hx as (A & B & C & D). fin.
  - apply sd_new_inv in Hx as (A & B & C & D). fin.
  - apply mad_new_inv in Hx as (A & B & C & D). fin.
  - apply min_new_inv in Hx as (A & B & C & D). fin.
  - apply max_new_inv in Hx as (A & B & C & D). fin.
  - unfold bb_new in Hx. inv_bind Hx sd Hsd. injection Hx as <-. apply sd_new_inv in Hsd as (A & B & C & D). fin.
  - injection H as <-. fin.
  - unfold atr_new in Hx. inv_bind Hx e He. injection Hx as <-. apply wfk_new in He as (A & B & C). fin.
  - unfold rsi_new in Hx. inv_bind Hx u Hu. inv_bind Hx d Hd. injection Hx as <-.
    apply wfk_new in Hu as (A & B & C). apply wfk_new in Hd as (A' & B' & C'). fin.
  - unfold fast_new in Hx. inv_bind Hx mn Hmn. inv_bind Hx mx Hmx. injection Hx as <-.
    apply min_new_inv in Hmn as (A & B & C & D). apply max_new_inv in Hmx as (A' & B' & C' & D'). fin.
  - unfold slow_new in Hx. inv_bind Hx f Hf. inv_bind Hx e He. injection Hx as <-.
    unfold fast_new in Hf. inv_bind Hf mn Hmn. inv_bind Hf mx Hmx. injection Hf as <-.
    apply min_new_inv in Hmn as (A & B & C & D). apply max_new_inv in Hmx as (A' & B' & C' & D').
    apply wfk_new in He as (A2 & B2 & C2). fin.
  - apply roc_new_inv in Hx as (A & B & C & D). fin.
  - apply er_new_inv in Hx as (A & B & C & D). fin.
  - unfold macd_new in Hx. inv_bind Hx f Hf. inv_bind Hx sl Hsl. inv_bind Hx g Hg. injection Hx as <-.
    apply wfk_new in Hf as (A & B & C). apply wfk_new in Hsl as (A' & B' & C'). apply wfk_new in Hg as (A2 & B2 & C2). fin.
  - unfold ppo_new in Hx. inv_bind Hx f Hf. inv_bind Hx sl Hsl. inv_bind Hx g Hg. injection Hx as <-.
    apply wfk_new in Hf as (A & B & C). apply wfk_new in Hsl as (A' & B' & C'). apply wfk_new in Hg as (A2 & B2 & C2). fin.
  - unfold kc_new in Hx. inv_bind Hx at_ Hat. inv_bind Hx e He. injection Hx as <-.
    unfold atr_new in Hat. inv_bind Hat e2 He2. injection Hat as <-.
    apply wfk_new in He as (A & B & C). apply wfk_new in He2 as (A' & B' & C'). fin.
  - unfold ce_new in Hx. inv_bind Hx at_ Hat. inv_bind Hx mn Hmn. inv_bind Hx mx Hmx. injection Hx as <-.
    unfold atr_new in Hat. inv_bind Hat e2 He2. injection Hat as <-.
    apply wfk_new in He2 as (A & B & C).
    apply min_new_inv in Hmn as (A1 & B1 & C1 & D1). apply max_new_inv in Hmx as (A2 & B2 & C2 & D2). fin.
  - unfold cci_new in Hx. inv_bind Hx sm Hsm. inv_bind Hx md Hmd. injection Hx as <-.
    apply sma_new_inv in Hsm as (A & B & C & D). apply mad_new_inv in Hmd as (A' & B' & C' & D'). fin.
  - apply mfi_new_inv in Hx as (A & B & C & D). fin.
  - injection H as <-. fin.
Qed.

Definition same_params (s s' : @St F) := params_of s' = params_of s /\ kind_of s' = kind_of s.

Ltac rs := cbn [WF fst snd] in *; unfold same_params;
  repeat (first [assumption | split]); cbn in *; rewrite ?repeat_length;
  try assumption; try congruence; try lia; auto.

(* ---------------- transitions never panic and preserve WF and the parameters ---------------- *)
Lemma bb_next_ok s x : wf_bb s ->
  exists s' o, bb_next O s x = Ok (s', o) /\ wf_bb s' /\ bb_period s' = bb_period s /\ bb_multiplier s' = bb_multiplier s.
Proof.
  intros [H1 H2]. unfold bb_next. destruct (sd_next_ok O (bb_sd s) x H1) as (s' & o & E & W & P).
  rewrite E. cbn [bind]. eexists; eexists; split; [reflexivity|]. unfold wf_bb; cbn. rs.
Qed.

Lemma fast_next_ok s x : wf_fast s ->
  exists s' o, fast_next O s x = Ok (s', o) /\ wf_fast s' /\ fast_period s' = fast_period s.
Proof.
  intros (H1 & H2 & H3 & H4). unfold fast_next.
  destruct (min_next_ok O _ x H1) as (mn & o1 & E1 & W1 & P1). rewrite E1; cbn [bind].
  destruct (max_next_ok O _ x H2) as (mx & o2 & E2 & W2 & P2). rewrite E2; cbn [bind].
  eexists; eexists; split; [reflexivity|]. unfold wf_fast; cbn. rs.
Qed.

Lemma fast_next_bar_ok s b : wf_fast s ->
  exists s' o, fast_next_bar O s b = Ok (s', o) /\ wf_fast s' /\ fast_period s' = fast_period s.
Proof.
  intros (H1 & H2 & H3 & H4). unfold fast_next_bar.
  destruct (max_next_ok O _ (b_high b) H2) as (mx & o2 & E2 & W2 & P2). rewrite E2; cbn [bind].
  destruct (min_next_ok O _ (b_low b) H1) as (mn & o1 & E1 & W1 & P1). rewrite E1; cbn [bind].
  eexists; eexists; split; [reflexivity|]. unfold wf_fast; cbn. rs.
Qed.

Lemma atr_next_wf s x : wf_atr s ->
  wf_atr (fst (atr_next O s x)) /\ ema_period (atr_ema (fst (atr_next O s x))) = ema_period (atr_ema s).
Proof.
  unfold wf_atr, atr_next. intros H. destruct (tr_next O (atr_true_range s) x) as [tr d].
  pose proof (wfk_next (atr_ema s) d H) as [A B]. destruct (ema_next O (atr_ema s) d) as [e o]. cbn in *. auto.
Qed.
Lemma atr_next_bar_wf s b : wf_atr s ->
  wf_atr (fst (atr_next_bar O s b)) /\ ema_period (atr_ema (fst (atr_next_bar O s b))) = ema_period (atr_ema s).
Proof.
  unfold wf_atr, atr_next_bar. intros H. destruct (tr_next_bar O (atr_true_range s) b) as [tr d].
  pose proof (wfk_next (atr_ema s) d H) as [A B]. destruct (ema_next O (atr_ema s) d) as [e o]. cbn in *. auto.
Qed.


Theorem next_bar_total : forall s b, WF s ->
  exists s' o, next_bar O s b = Ok (s', o) /\ WF s' /\ same_params s s'.
Proof.
  intros s b W. destruct s; cbn [next_bar WF] in *; unfold pack1, packl, pure1, purel, same_params.
  - destruct (sma_next_ok O s (b_close b) W) as (s' & o & E & W' & P). rewrite E; cbn. do 2 eexists; rs.
  - pose proof (wfk_next s (b_close b) W) as [A B]. destruct (ema_next O s (b_close b)) as [s' o]. do 2 eexists; rs.
  - destruct (wma_next_ok O s (b_close b) W) as (s' & o & E & W' & P). rewrite E; cbn. do 2 eexists; rs.
  - destruct (sd_next_ok O s (b_close b) W) as (s' & o & E & W' & P). rewrite E; cbn. do 2 eexists; rs.
  - destruct (mad_next_ok O s (b_close b) W) as (s' & o & E & W' & P). rewrite E; cbn. do 2 eexists; rs.
  - destruct (min_next_ok O s (b_low b) W) as (s' & o & E & W' & P). rewrite E; cbn. do 2 eexists; rs.
  - destruct (max_next_ok O s (b_high b) W) as (s' & o & E & W' & P). rewrite E; cbn. do 2 eexists; rs.
  - destruct (bb_next_ok s (b_close b) W) as (s' & o & E & W' & P & M). rewrite E; cbn. do 2 eexists; rs.
  - destruct (tr_next_bar O s b) as [s' o]. do 2 eexists; rs.
  - pose proof (atr_next_bar_wf s b W) as [A B]. destruct (atr_next_bar O s b) as [s' o]. do 2 eexists; rs.
  - destruct W as (A & B & C & D). unfold rsi_next.
    destruct (if rsi_is_new s then _ else _) as [up down].
    pose proof (wfk_next (rsi_up s) up A) as [A1 A2]. destruct (ema_next O (rsi_up s) up) as [ue uo].
    pose proof (wfk_next (rsi_down s) down B) as [B1 B2]. destruct (ema_next O (rsi_down s) down) as [de do].
    do 2 eexists; split; [reflexivity|]. cbn in *. unfold wf_rsi; cbn. rs.
  - destruct (fast_next_bar_ok s b W) as (s' & o & E & W' & P). rewrite E; cbn. do 2 eexists; rs.
  - destruct W as [W1 W2]. unfold slow_next_bar.
    destruct (fast_next_bar_ok _ b W1) as (f' & o & E & W' & P). rewrite E; cbn [bind].
    pose proof (wfk_next (slow_ema s) o W2) as [A B]. destruct (ema_next O (slow_ema s) o) as [e' o'].
    do 2 eexists; split; [reflexivity|]. cbn in *. unfold wf_slow; cbn. rs.
  - destruct (roc_next_ok O s (b_close b) W) as (s' & o & E & W' & P). rewrite E; cbn. do 2 eexists; rs.
  - destruct (er_next_ok O s (b_close b) W) as (s' & o & E & W' & P). rewrite E; cbn. do 2 eexists; rs.
  - destruct W as (A & B & C). unfold macd_next.
    pose proof (wfk_next (macd_fast s) (b_close b) A) as [A1 A2]. destruct (ema_next O (macd_fast s) _) as [f fv].
    pose proof (wfk_next (macd_slow s) (b_close b) B) as [B1 B2]. destruct (ema_next O (macd_slow s) _) as [sl sv].
    pose proof (wfk_next (macd_signal s) (sub O fv sv) C) as [C1 C2]. destruct (ema_next O (macd_signal s) _) as [g gv].
    do 2 eexists; split; [reflexivity|]. cbn in *. unfold wf_macd; cbn. rs.
  - destruct W as (A & B & C). unfold ppo_next.
    pose proof (wfk_next (ppo_fast s) (b_close b) A) as [A1 A2]. destruct (ema_next O (ppo_fast s) _) as [f fv].
    pose proof (wfk_next (ppo_slow s) (b_close b) B) as [B1 B2]. destruct (ema_next O (ppo_slow s) _) as [sl sv].
    pose proof (wfk_next (ppo_signal s) (mul O (div O (sub O fv sv) sv) (c100 O)) C) as [C1 C2]. destruct (ema_next O (ppo_signal s) _) as [g gv].
    do 2 eexists; split; [reflexivity|]. cbn in *. unfold wf_ppo; cbn. rs.
  - destruct W as (A & B & C & D). unfold kc_next_bar.
    pose proof (wfk_next (kc_ema s) (div O (add O (add O (b_close b) (b_high b)) (b_low b)) (three O)) B) as [B1 B2].
    destruct (ema_next O (kc_ema s) _) as [e av].
    pose proof (atr_next_bar_wf (kc_atr s) b A) as [A1 A2]. destruct (atr_next_bar O (kc_atr s) b) as [a at_].
    do 2 eexists; split; [reflexivity|]. cbn in *. unfold wf_kc; cbn. rs.
  - destruct W as (A & B & C & D & E). unfold ce_next_bar.
    pose proof (atr_next_bar_wf (ce_atr s) b A) as [A1 A2]. destruct (atr_next_bar O (ce_atr s) b) as [a at_].
    destruct (min_next_ok O _ (b_low b) B) as (mn & o1 & E1 & W1 & P1). rewrite E1; cbn [bind].
    destruct (max_next_ok O _ (b_high b) C) as (mx & o2 & E2 & W2 & P2). rewrite E2; cbn [bind].
    do 2 eexists; split; [reflexivity|]. cbn in *. unfold wf_ce; cbn. rs.
  - destruct W as (A & B & C). unfold cci_next_bar.
    destruct (sma_next_ok O _ (div O (add O (add O (b_close b) (b_high b)) (b_low b)) (three O)) A) as (sm & o1 & E1 & W1 & P1). rewrite E1; cbn [bind].
    destruct (mad_next_ok O _ (div O (add O (add O (b_close b) (b_high b)) (b_low b)) (three O)) B) as (md & o2 & E2 & W2 & P2). rewrite E2; cbn [bind].
    do 2 eexists; split; [reflexivity|]. cbn in *. unfold wf_cci; cbn. rs.
  - destruct (mfi_next_ok O s b W) as (s' & o & E & W' & P). rewrite E; cbn. do 2 eexists; rs.
  - destruct (obv_next_bar O s b) as [s' o]. do 2 eexists; rs.
Qed.

Theorem next_total : forall s x, WF s -> has_scalar (kind_of s) = true ->
  exists s' o, next O s x = Some (Ok (s', o)) /\ WF s' /\ same_params s s'.
Proof.
  intros s x W Hs. destruct s; cbn [next WF kind_of has_scalar] in *; try discriminate;
    unfold pack1, packl, pure1, purel, same_params.
  - destruct (sma_next_ok O s x W) as (s' & o & E & W' & P). rewrite E; cbn. do 2 eexists; rs.
  - pose proof (wfk_next s x W) as [A B]. destruct (ema_next O s x) as [s' o]. do 2 eexists; rs.
  - destruct (wma_next_ok O s x W) as (s' & o & E & W' & P). rewrite E; cbn. do 2 eexists; rs.
  - destruct (sd_next_ok O s x W) as (s' & o & E & W' & P). rewrite E; cbn. do 2 eexists; rs.
  - destruct (mad_next_ok O s x W) as (s' & o & E & W' & P). rewrite E; cbn. do 2 eexists; rs.
  - destruct (min_next_ok O s x W) as (s' & o & E & W' & P). rewrite E; cbn. do 2 eexists; rs.
  - destruct (max_next_ok O s x W) as (s' & o & E & W' & P). rewrite E; cbn. do 2 eexists; rs.
  - destruct (bb_next_ok s x W) as (s' & o & E & W' & P & M). rewrite E; cbn. do 2 eexists; rs.
  - destruct (tr_next O s x) as [s' o]. do 2 eexists; rs.
  - pose proof (atr_next_wf s x W) as [A B]. destruct (atr_next O s x) as [s' o]. do 2 eexists; rs.
  - destruct W as (A & B & C & D). unfold rsi_next.
    destruct (if rsi_is_new s then _ else _) as [up down].
    pose proof (wfk_next (rsi_up s) up A) as [A1 A2]. destruct (ema_next O (rsi_up s) up) as [ue uo].
    pose proof (wfk_next (rsi_down s) down B) as [B1 B2]. destruct (ema_next O (rsi_down s) down) as [de do].
    do 2 eexists; split; [reflexivity|]. cbn in *. unfold wf_rsi; cbn. rs.
  - destruct (fast_next_ok s x W) as (s' & o & E & W' & P). rewrite E; cbn. do 2 eexists; rs.
  - destruct W as [W1 W2]. unfold slow_next.
    destruct (fast_next_ok _ x W1) as (f' & o & E & W' & P). rewrite E; cbn [bind].
    pose proof (wfk_next (slow_ema s) o W2) as [A B]. destruct (ema_next O (slow_ema s) o) as [e' o'].
    do 2 eexists; split; [reflexivity|]. cbn in *. unfold wf_slow; cbn. rs.
  - destruct (roc_next_ok O s x W) as (s' & o & E & W' & P). rewrite E; cbn. do 2 eexists; rs.
  - destruct (er_next_ok O s x W) as (s' & o & E & W' & P). rewrite E; cbn. do 2 eexists; rs.
  - destruct W as (A & B & C). unfold macd_next.
    pose proof (wfk_next (macd_fast s) x A) as [A1 A2]. destruct (ema_next O (macd_fast s) _) as [f fv].
    pose proof (wfk_next (macd_slow s) x B) as [B1 B2]. destruct (ema_next O (macd_slow s) _) as [sl sv].
    pose proof (wfk_next (macd_signal s) (sub O fv sv) C) as [C1 C2]. destruct (ema_next O (macd_signal s) _) as [g gv].
    do 2 eexists; split; [reflexivity|]. cbn in *. unfold wf_macd; cbn. rs.
  - destruct W as (A & B & C). unfold ppo_next.
    pose proof (wfk_next (ppo_fast s) x A) as [A1 A2]. destruct (ema_next O (ppo_fast s) _) as [f fv].
    pose proof (wfk_next (ppo_slow s) x B) as [B1 B2]. destruct (ema_next O (ppo_slow s) _) as [sl sv].
    pose proof (wfk_next (ppo_signal s) (mul O (div O (sub O fv sv) sv) (c100 O)) C) as [C1 C2]. destruct (ema_next O (ppo_signal s) _) as [g gv].
    do 2 eexists; split; [reflexivity|]. cbn in *. unfold wf_ppo; cbn. rs.
  - destruct W as (A & B & C & D). unfold kc_next.
    pose proof (atr_next_wf (kc_atr s) x A) as [A1 A2]. destruct (atr_next O (kc_atr s) x) as [a at_].
    pose proof (wfk_next (kc_ema s) x B) as [B1 B2]. destruct (ema_next O (kc_ema s) _) as [e av].
    do 2 eexists; split; [reflexivity|]. cbn in *. unfold wf_kc; cbn. rs.
Qed.

Theorem reset_total : forall s, WF s -> exists s', reset O s = Ok s' /\ WF s' /\ same_params s s'.
Proof.
  intros s W. destruct s; cbn [reset WF] in *; unfold rmap, same_params.
  - rewrite (sma_reset_ok O s W). destruct W as (A & B & C & D & E). rewrite sma_new_ok by lia. cbn.
    eexists; split; [reflexivity|]. rs.
  - eexists; split; [reflexivity|]. pose proof (wfk_reset s W) as [A B]. rs.
  - rewrite (wma_reset_ok O s W). destruct W as (A & B & C & D & E). rewrite wma_new_ok by lia. cbn.
    eexists; split; [reflexivity|]. rs.
  - rewrite (sd_reset_ok O s W). destruct W as (A & B & C & D & E). rewrite sd_new_ok by lia. cbn.
    eexists; split; [reflexivity|]. rs.
  - rewrite (mad_reset_ok O s W). destruct W as (A & B & C & D & E). rewrite mad_new_ok by lia. cbn.
    eexists; split; [reflexivity|]. rs.
  - rewrite (min_reset_ok O s W). cbn. eexists; split; [reflexivity|].
    destruct (min_reset_wf O s W _ (min_reset_ok O s W)) as [A B]. rs.
  - rewrite (max_reset_ok O s W). cbn. eexists; split; [reflexivity|].
    destruct (max_reset_wf O s W _ (max_reset_ok O s W)) as [A B]. rs.
  - destruct W as [W1 W2]. unfold bb_reset. rewrite (sd_reset_ok O _ W1).
    destruct W1 as (A & B & C & D & E). rewrite sd_new_ok by lia. cbn.
    eexists; split; [reflexivity|]. unfold wf_bb, wf_sd, ring_wf; cbn. rs.
  - eexists; split; [reflexivity|]. rs.
  - eexists; split; [reflexivity|]. pose proof (wfk_reset _ W) as [A B]. rs.
  - destruct W as (A & B & C & D). eexists; split; [reflexivity|].
    pose proof (wfk_reset _ A) as [A1 A2]. pose proof (wfk_reset _ B) as [B1 B2].
    unfold wf_rsi; cbn. rs.
  - destruct W as (A & B & C & D). unfold fast_reset. rewrite (min_reset_ok O _ A), (max_reset_ok O _ B). cbn.
    eexists; split; [reflexivity|].
    destruct (min_reset_wf O _ A _ (min_reset_ok O _ A)) as [A1 A2].
    destruct (max_reset_wf O _ B _ (max_reset_ok O _ B)) as [B1 B2].
    unfold wf_fast; cbn. rs.
  - destruct W as [(A & B & C & D) W2]. unfold slow_reset, fast_reset.
    rewrite (min_reset_ok O _ A), (max_reset_ok O _ B). cbn.
    eexists; split; [reflexivity|].
    destruct (min_reset_wf O _ A _ (min_reset_ok O _ A)) as [A1 A2].
    destruct (max_reset_wf O _ B _ (max_reset_ok O _ B)) as [B1 B2].
    pose proof (wfk_reset _ W2) as [E1 E2].
    unfold wf_slow, wf_fast; cbn. rs.
  - rewrite (roc_reset_ok O s W). destruct W as (A & B & C & D & E). rewrite roc_new_ok by lia. cbn.
    eexists; split; [reflexivity|]. unfold wf_roc; cbn. rs.
  - rewrite (er_reset_ok O s W). destruct W as (A & B & C & D & E & G). rewrite er_new_ok by lia. cbn.
    eexists; split; [reflexivity|]. unfold wf_er; cbn. rs.
  - destruct W as (A & B & C). eexists; split; [reflexivity|].
    pose proof (wfk_reset _ A) as [A1 A2]. pose proof (wfk_reset _ B) as [B1 B2]. pose proof (wfk_reset _ C) as [C1 C2].
    unfold wf_macd; cbn. repeat split; try apply A1; try apply B1; try apply C1.
  - destruct W as (A & B & C). eexists; split; [reflexivity|].
    pose proof (wfk_reset _ A) as [A1 A2]. pose proof (wfk_reset _ B) as [B1 B2]. pose proof (wfk_reset _ C) as [C1 C2].
    unfold wf_ppo; cbn. repeat split; try apply A1; try apply B1; try apply C1.
  - destruct W as (A & B & C & D). eexists; split; [reflexivity|].
    pose proof (wfk_reset _ A) as [A1 A2]. pose proof (wfk_reset _ B) as [B1 B2].
    unfold wf_kc, wf_atr; cbn. rs.
  - destruct W as (A & B & C & D & E). unfold ce_reset. rewrite (min_reset_ok O _ B), (max_reset_ok O _ C). cbn.
    eexists; split; [reflexivity|].
    destruct (min_reset_wf O _ B _ (min_reset_ok O _ B)) as [B1 B2].
    destruct (max_reset_wf O _ C _ (max_reset_ok O _ C)) as [C1 C2].
    pose proof (wfk_reset _ A) as [A1 A2].
    unfold wf_ce, wf_atr; cbn. rs.
  - destruct W as (A & B & C). unfold cci_reset. rewrite (sma_reset_ok O _ A), (mad_reset_ok O _ B).
    destruct A as (A1 & A2 & A3 & A4 & A5). destruct B as (B1 & B2 & B3 & B4 & B5).
    rewrite sma_new_ok, mad_new_ok by lia. cbn.
    eexists; split; [reflexivity|]. unfold wf_cci, wf_sma, wf_mad, ring_wf; cbn. rs.
  - rewrite (mfi_reset_ok O s W). destruct W as (A & B & C & D & E). rewrite mfi_new_ok by lia. cbn.
    eexists; split; [reflexivity|]. rs.
  - eexists; split; [reflexivity|]. rs.
Qed.

(* ---------------- reset = new (record equality) for indicators without Minimum/Maximum ------- *)
Definition has_minmax (k : Kind) : bool :=
  match k with KMin | KMax | KFast | KSlow | KCe => true | _ => false end.

Lemma ema_reset_new s : wfk s -> ema_new O (ema_period s) = Ok (ema_reset O s).
Proof. intros [A B]. symmetry. apply ema_reset_ok; assumption. Qed.

Theorem reset_is_new : forall s, WF s -> has_minmax (kind_of s) = false ->
  reset O s = new O (kind_of s) (params_of s).
Proof.
  intros s W Hk. destruct s; cbn [reset new kind_of params_of WF has_minmax p1 p2 p3 pm] in *; try discriminate; unfold rmap.
  - rewrite (sma_reset_ok O s W). reflexivity.
  - rewrite (ema_reset_new s W). reflexivity.
  - rewrite (wma_reset_ok O s W). reflexivity.
  - rewrite (sd_reset_ok O s W). reflexivity.
  - rewrite (mad_reset_ok O s W). reflexivity.
  - destruct W as [W1 W2]. unfold bb_reset, bb_new. rewrite (sd_reset_ok O _ W1), W2.
    destruct (sd_new O (bb_period s)); reflexivity.
  - destruct s; reflexivity.
  - unfold atr_new. rewrite (ema_reset_new _ W). reflexivity.
  - destruct W as (A & B & C & D). unfold rsi_new. rewrite <- C at 1. rewrite (ema_reset_new _ A). cbn [bind].
    rewrite <- D. rewrite (ema_reset_new _ B). cbn [bind]. rewrite D. reflexivity.
  - rewrite (roc_reset_ok O s W). reflexivity.
  - rewrite (er_reset_ok O s W). reflexivity.
  - destruct W as (A & B & C). unfold macd_new.
    rewrite (ema_reset_new _ A), (ema_reset_new _ B), (ema_reset_new _ C). reflexivity.
  - destruct W as (A & B & C). unfold ppo_new.
    rewrite (ema_reset_new _ A), (ema_reset_new _ B), (ema_reset_new _ C). reflexivity.
  - destruct W as (A & B & C & D). unfold kc_new, atr_new.
    rewrite <- C at 1. rewrite (ema_reset_new _ A). cbn [bind]. rewrite <- D. rewrite (ema_reset_new _ B). cbn [bind].
    rewrite D. reflexivity.
  - destruct W as (A & B & C). unfold cci_reset, cci_new.
    rewrite (sma_reset_ok O _ A), (mad_reset_ok O _ B), C. reflexivity.
  - rewrite (mfi_reset_ok O s W). reflexivity.
  - reflexivity.
Qed.

End GP.
