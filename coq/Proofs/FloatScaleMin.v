(* C14 on binary64, whole streams: Minimum fed 2^k x returns 2^k Minimum(x), bit for bit as values and WITHOUT any side condition: the
   indicator only compares and copies, and `<` on floats does not change when both operands are multiplied by 2^k (or are both the
   +infinity that fills the unused slots). *)
From Coq Require Import Reals Lra Lia ZArith List Floats.
From Flocq Require Import Core BinarySingleNaN PrimFloat.
From TA Require Import Base Model FloatInst Proofs.Wiring Proofs.FloatErr Proofs.FloatScale Proofs.FloatScaleSma.
Import ListNotations.
Local Notation O := FOps.
Local Notation float := PrimFloat.float.
Open Scope R_scope.

Definition sinf (k : Z) (a a' : float) : Prop := scaled k a a' \/ (a = infinity /\ a' = infinity).

Lemma ltb_fin_inf a : finF a -> (a <? infinity)%float = true.
Proof.
  intros Fa. rewrite ltb_equiv. unfold finF in Fa. change (Prim2B infinity) with (B754_infinity false : binary_float prec emax).
  destruct (Prim2B a) as [s|s| |s m e Hb]; try discriminate; destruct s; reflexivity.
Qed.
Lemma ltb_inf_fin a : finF a -> (infinity <? a)%float = false.
Proof.
  intros Fa. rewrite ltb_equiv. unfold finF in Fa. change (Prim2B infinity) with (B754_infinity false : binary_float prec emax).
  destruct (Prim2B a) as [s|s| |s m e Hb]; try discriminate; destruct s; reflexivity.
Qed.

Lemma ltb_sinf k a b a' b' : sinf k a a' -> sinf k b b' -> (a' <? b')%float = (a <? b)%float.
Proof.
  intros [(Fa & Fa' & Ea)|[-> ->]] [(Fb & Fb' & Eb)|[-> ->]].
  - rewrite !ltb_equiv. unfold finF in *. rewrite !Bltb_correct by assumption. fold (FR a) (FR b) (FR a') (FR b'). rewrite Ea, Eb.
    pose proof (bpow_gt_0 radix2 k) as Hb.
    destruct (Rlt_bool_spec (FR a) (FR b)), (Rlt_bool_spec (FR a * bpow radix2 k) (FR b * bpow radix2 k)); try reflexivity; exfalso; nra.
  - rewrite !ltb_fin_inf by assumption. reflexivity.
  - rewrite !ltb_inf_fin by assumption. reflexivity.
  - reflexivity.
Qed.

Lemma sinf_inf k : sinf k (inf O) (inf O). Proof. right. split; reflexivity. Qed.

Lemma find_min_fold k : forall l l', Forall2 (sinf k) l l' -> forall m m' ix i, sinf k m m' ->
  let r := fold_left (fun '(m, index, i) val => if (val <? m)%float then (val, i, (i + 1)%N) else (m, index, (i + 1)%N)) l (m, ix, i) in
  let r' := fold_left (fun '(m, index, i) val => if (val <? m)%float then (val, i, (i + 1)%N) else (m, index, (i + 1)%N)) l' (m', ix, i) in
  snd (fst r) = snd (fst r').
Proof.
  induction 1 as [|x x' l l' Hx _ IH]; intros m m' ix i Hm; cbn [fold_left]; [reflexivity|].
  rewrite (ltb_sinf k x m x' m' Hx Hm). destruct (x <? m)%float; apply IH; assumption.
Qed.

Lemma find_min_rel k l l' : Forall2 (sinf k) l l' -> find_min_index O l = find_min_index O l'.
Proof.
  intros H. unfold find_min_index. cbn [ltb O].
  pose proof (find_min_fold k l l' H (inf O) (inf O) 0%N 0%N (sinf_inf k)) as E. cbv zeta in E.
  destruct (fold_left _ l _) as [[a b] c]. destruct (fold_left _ l' _) as [[a' b'] c']. exact E.
Qed.

Definition rel_min (k : Z) (s s' : @Min float) : Prop :=
  min_period s = min_period s' /\ min_min_index s = min_min_index s' /\ min_cur_index s = min_cur_index s' /\ Forall2 (sinf k) (min_deque s) (min_deque s').

Lemma min_step_pow2 k s s' x x' s1 o : rel_min k s s' -> sinf k x x' -> min_next O s x = Ok (s1, o) ->
  exists s1' o', min_next O s' x' = Ok (s1', o') /\ rel_min k s1 s1' /\ sinf k o o'.
Proof.
  intros (Ep & Em & Ec & Sd) Sx E. unfold min_next in *. rewrite <- Ep, <- Em, <- Ec.
  destruct (upd (min_deque s) (min_cur_index s) x) as [dq| |] eqn:Eu; cbn [bind] in E; try discriminate.
  destruct (upd_rel _ _ _ _ _ _ _ Sd Sx Eu) as (dq' & Eu' & Sdq). rewrite Eu'. cbn [bind].
  destruct (idx dq (min_min_index s)) as [cm| |] eqn:Ei; cbn [bind] in E; try discriminate.
  destruct (idx_rel _ _ _ _ _ Sdq Ei) as (cm' & Ei' & Scm). rewrite Ei'. cbn [bind].
  cbn [ltb O] in *. rewrite (ltb_sinf k x cm x' cm' Sx Scm). rewrite <- (find_min_rel k dq dq' Sdq).
  destruct (advance (min_period s) (min_cur_index s)) as [ci| |] eqn:Ea; cbn [bind] in E |- *; try discriminate.
  set (mi := if (x <? cm)%float then min_cur_index s else if (min_min_index s =? min_cur_index s)%N then find_min_index O dq else min_min_index s) in *.
  destruct (idx dq mi) as [out| |] eqn:Eo; cbn [bind] in E; try discriminate. injection E as <- <-.
  destruct (idx_rel _ _ _ _ _ Sdq Eo) as (out' & Eo' & So). rewrite Eo'. cbn [bind].
  eexists _, _. split; [reflexivity|]. split; [repeat split; cbn [min_period min_min_index min_cur_index min_deque]; try assumption; reflexivity|exact So].
Qed.

Theorem min_stream_pow2 k : forall xs xs' s s', rel_min k s s' -> Forall2 (sinf k) xs xs' ->
  length (res_outs (min_next O) s xs) = length xs ->
  Forall2 (sinf k) (res_outs (min_next O) s xs) (res_outs (min_next O) s' xs').
Proof.
  induction xs as [|x xs IH]; intros xs' s s' Hr Hx HL; inversion Hx as [|? x' ? xs2 Sx Hx']; subst; cbn [res_outs] in *; [constructor|].
  destruct (min_next O s x) as [[s1 o]| |] eqn:E; cbn [length] in HL; try discriminate.
  destruct (min_step_pow2 k s s' x x' s1 o Hr Sx E) as (s1' & o' & E' & Hr' & So). rewrite E'.
  constructor; [exact So|]. apply IH; [exact Hr'|exact Hx'|lia].
Qed.

Theorem min_pow2_covariant k p s xs xs' : min_new O p = Ok s -> Forall2 (scaled k) xs xs' ->
  length (res_outs (min_next O) s xs) = length xs ->
  Forall2 (sinf k) (res_outs (min_next O) s xs) (res_outs (min_next O) s xs').
Proof.
  intros H Hx HL. apply (min_stream_pow2 k xs xs' s s); [| |exact HL].
  - unfold min_new in H. destruct (p =? 0)%N; [discriminate|].
    destruct (alloc p (inf O)) as [dq| |] eqn:Ea; cbn [bind] in H; try discriminate. injection H as <-.
    repeat split; cbn [min_period min_min_index min_cur_index min_deque]; try reflexivity.
    unfold alloc in Ea. destruct (_ <=? _)%N in Ea; [|discriminate]. injection Ea as <-.
    clear. induction (N.to_nat p) as [|n IHn]; cbn; [constructor|constructor; [apply sinf_inf|exact IHn]].
  - clear -Hx. induction Hx; constructor; [left; assumption|assumption].
Qed.
