(* Par/Var.v — the "variance model" XRvOps (sqrt := identity) against the real instance XROps:
   identical on every indicator except StandardDeviation and BollingerBands, whose only use of
   sqrt is the output expression (never fed back into state). *)
From Coq Require Import Reals NArith List Bool.
From TA Require Import Base Model Generic XR.
From TA.Par Require Import Rel Hom.
Import ListNotations.

Definition uses_sqrt (k : Kind) : bool := match k with KSd | KBb => true | _ => false end.
Definition nosq (s : @St XR) : Prop := uses_sqrt (kind_of s) = false.
Definition nosq_slot (v : option (@St XR)) : Prop := match v with Some s => nosq s | None => True end.
Definition nosq_store (st : @store XR) : Prop := forall i, nosq_slot (sget st i).
Definition no_sqrt_op (o : @op XR) : bool :=
  match o with ONew _ k _ | ODef _ k => negb (uses_sqrt k) | _ => true end.

Lemma next_v s x : nosq s -> next XRvOps s x = next XROps s x.
Proof. destruct s; intros H; try discriminate H; reflexivity. Qed.
Lemma next_bar_v s b : nosq s -> next_bar XRvOps s b = next_bar XROps s b.
Proof. destruct s; intros H; try discriminate H; reflexivity. Qed.
Lemma reset_v s : nosq s -> reset XRvOps s = reset XROps s.
Proof. destruct s; intros H; try discriminate H; reflexivity. Qed.
Lemma new_v k p : uses_sqrt k = false -> new XRvOps k p = new XROps k p.
Proof. destruct k; intros H; try discriminate H; reflexivity. Qed.
Lemma default_v k : default_params XRvOps k = default_params XROps k.
Proof. destruct k; reflexivity. Qed.
Lemma build_v b : build XRvOps b = build XROps b. Proof. reflexivity. Qed.

(* the variant preserves the kind of a state *)
Ltac kind_tac H :=
  repeat match type of H with
         | context [match ?r with _ => _ end] => destruct r eqn:?; cbn in H
         end; try discriminate H; inversion H; subst; reflexivity.

Lemma next_kind (O : Ops XR) s x s' o : next O s x = Some (Ok (s', o)) -> kind_of s' = kind_of s.
Proof.
  destruct s; cbn [next]; intros H; try discriminate H; injection H as H;
    unfold pack1, packl, pure1, purel, bind in H; kind_tac H.
Qed.
Lemma next_bar_kind (O : Ops XR) s b s' o : next_bar O s b = Ok (s', o) -> kind_of s' = kind_of s.
Proof.
  destruct s; cbn [next_bar]; intros H; unfold pack1, packl, pure1, purel, bind in H; kind_tac H.
Qed.
Lemma reset_kind (O : Ops XR) s s' : reset O s = Ok s' -> kind_of s' = kind_of s.
Proof.
  destruct s; cbn [reset]; intros H; unfold rmap, bind in H;
    repeat match type of H with
           | context [match ?r with _ => _ end] => destruct r eqn:?; cbn in H
           end; try discriminate H; inversion H; subst; reflexivity.
Qed.

From TA.Proofs Require Import RunProofs.

Lemma nosq_sset st i v : nosq_store st -> nosq_slot v -> nosq_store (sset st i v).
Proof.
  intros H Hv j. destruct (Nat.eq_dec i j) as [->|Hn].
  - rewrite sget_sset_eq. exact Hv.
  - rewrite sget_sset_neq by exact Hn. apply H.
Qed.
Lemma nosq_nil : nosq_store []. Proof. intros i. rewrite sget_nil. exact I. Qed.

Lemma new_kind_of (O : Ops XR) k p s : new O k p = Ok s -> kind_of s = k.
Proof.
  destruct k; cbn [new]; unfold rmap, bind; intros H;
    repeat match type of H with
           | context [match ?r with _ => _ end] => destruct r eqn:?; cbn in H
           end; try discriminate H; inversion H; subst; reflexivity.
Qed.

Theorem step_v st o : nosq_store st -> no_sqrt_op o = true ->
  step XRvOps st o = step XROps st o /\ nosq_store (fst (step XROps st o)).
Proof.
  intros W Ho. destruct o as [s k p|s k|s x|s b|s b|s|s d|s|s|s|calls]; cbn [step no_sqrt_op] in *.
  - apply negb_true_iff in Ho. rewrite (new_v k p Ho). split; [reflexivity|].
    destruct (new XROps k p) as [v| |] eqn:E; cbn [fst]; apply nosq_sset; try exact W; try exact I.
    cbn. unfold nosq. now rewrite (new_kind_of _ _ _ _ E).
  - apply negb_true_iff in Ho. rewrite default_v, (new_v k _ Ho). split; [reflexivity|].
    destruct (new XROps k _) as [v| |] eqn:E; cbn [fst]; try exact W. apply nosq_sset; [exact W|].
    cbn. unfold nosq. now rewrite (new_kind_of _ _ _ _ E).
  - pose proof (W s) as Ws. destruct (sget st s) as [v|]; [|split; [reflexivity|exact W]].
    cbn in Ws. rewrite (next_v v x Ws). split; [reflexivity|].
    destruct (next XROps v x) as [[[v' out]| |]|] eqn:E; cbn [fst]; try exact W.
    apply nosq_sset; [exact W|]. cbn. unfold nosq. now rewrite (next_kind _ _ _ _ _ E).
  - pose proof (W s) as Ws. destruct (sget st s) as [v|]; [|split; [reflexivity|exact W]].
    cbn in Ws. rewrite (next_bar_v v b Ws). split; [reflexivity|].
    destruct (next_bar XROps v b) as [[v' out]| |] eqn:E; cbn [fst]; try exact W.
    apply nosq_sset; [exact W|]. cbn. unfold nosq. now rewrite (next_bar_kind _ _ _ _ _ E).
  - pose proof (W s) as Ws. destruct (sget st s) as [v|]; [|split; [reflexivity|exact W]].
    cbn in Ws. rewrite build_v.
    destruct (build XROps _) as [item|e|]; [|split; [reflexivity|exact W]..].
    rewrite (next_bar_v v item Ws). split; [reflexivity|].
    destruct (next_bar XROps v item) as [[v' out]| |] eqn:E; cbn [fst]; try exact W.
    apply nosq_sset; [exact W|]. cbn. unfold nosq. now rewrite (next_bar_kind _ _ _ _ _ E).
  - pose proof (W s) as Ws. destruct (sget st s) as [v|]; [|split; [reflexivity|exact W]].
    cbn in Ws. rewrite (reset_v v Ws). split; [reflexivity|].
    destruct (reset XROps v) as [v'| |] eqn:E; cbn [fst]; try exact W.
    apply nosq_sset; [exact W|]. cbn. unfold nosq. now rewrite (reset_kind _ _ _ E).
  - pose proof (W s) as Ws. destruct (sget st s) as [v|]; [|split; [reflexivity|exact W]].
    split; [reflexivity|]. cbn [fst]. apply nosq_sset; assumption.
  - pose proof (W s) as Ws. destruct (sget st s) as [v|]; [|split; [reflexivity|exact W]].
    split; [reflexivity|]. rewrite SerdeProofs.serde_id. cbn [fst]. apply nosq_sset; assumption.
  - split; [reflexivity|]. destruct (sget st s); exact W.
  - split; [reflexivity|]. cbn [fst]. apply nosq_sset; [exact W|exact I].
  - split; [reflexivity|exact W].
Qed.

Theorem run_v ops : forall st, nosq_store st -> forallb no_sqrt_op ops = true ->
  run XRvOps st ops = run XROps st ops.
Proof.
  induction ops as [|o r IH]; intros st W Hf; [reflexivity|].
  cbn [forallb] in Hf. apply andb_true_iff in Hf as [Ho Hr].
  destruct (step_v st o W Ho) as [E W']. cbn [run]. rewrite E.
  destruct (step XROps st o) as [st1 b]. cbn [fst] in W'. now rewrite (IH st1 W' Hr).
Qed.

(* StandardDeviation: the variance model returns exactly the radicand of the real model *)
Lemma sd_next_v s x :
  sd_next XROps s x = match sd_next XRvOps s x with
                      | Ok (s', v) => Ok (s', xr_sqrt v) | Err e => Err e | Panic => Panic end.
Proof.
  unfold sd_next, bind. cbn [XRvOps XROps add sub mul div ltb zero ofN sqrt].
  repeat match goal with |- context [match ?r with _ => _ end] => destruct r; try reflexivity end.
Qed.
Print Assumptions run_v.
