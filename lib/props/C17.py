# C17 — Windowed indicators forget: only the last n (or n+1) inputs matter
import math
from props.util import *

LASTN = ["SMA", "WMA", "SD", "MAD", "MIN", "MAX", "FAST", "BB", "CCI"]
LASTN1 = ["ROC", "ER", "MFI"]
EXACT = {"MIN", "MAX", "FAST"}
aux_big = True   # also run the auxiliary big-period family (periods 2500 / 4100, two ring wraps) through the bit-exact tie
rule = ("SMA, WMA, SD, MAD, MIN, MAX, FAST, BB, CCI (last n) and ROC, ER, MFI (last n+1), periods 1..6 and sampled to 64: slot 0 is fed a "
        "history = arbitrary prefix (random regimes; in half of the cases containing spikes 10^6 times larger than the suffix level) followed "
        "by a suffix; slot 1 is a fresh instance fed only the suffix; once the suffix is at least n (n+1) long, the outputs are compared at "
        "every further step: exactly for the comparison-only indicators, within tau(t)*maxmag(history) (variances for SD/BB widths; times the "
        "condition number for the ratios) for the accumulating ones. All runs are also compared bit-exactly with the float model (T1). "
        "Plus one 4300-input history per indicator and period in {3, 5} (seed-independent; period 5 with 10^7 x spikes). Every third bar case has a grid prefix (equal neighbouring typical prices with volume); plus the K7 and K8 witnesses. "
        "Non-trivial: distinct case whose prefix is longer than the period and whose suffix extends >= 2 steps beyond n")
assumptions = ["condition numbers of the ratio indicators are estimated in double precision from the suffix window"]


def tau(t):
    return 1e-12 + 1e-15 * t ** 1.5


def gen_cases(ctx):
    r = ctx.rng
    rot = Rot(r)
    cases = []
    for ind in LASTN + LASTN1:
        periods = [1, 2, 3, 4, 6] + r.sample(range(7, 65), 1 if not ctx.thorough else 5)
        for p in periods:
            need = p + (1 if ind in LASTN1 else 0)
            for rep in range(3 if not ctx.thorough else 12):
                bars = ind in NO_SCALAR or (ind == "FAST" and rep % 2 == 1)
                npre = r.choice([p + 1, 2 * p + 3, 5 * p + 7, r.randint(1, 200)])
                nsuf = need + r.randint(2, p + 6)
                if bars:
                    # rep 1: a grid prefix (exactly equal neighbouring typical prices with volume: neutral bars entering the ring)
                    pre = bar_stream(r, npre, "grid" if rep % 3 == 1 else r.choice(["walk", "segments", "gaps"]), p=p)
                    suf = bar_stream(r, nsuf, rot.pick((ind, "b"), ["walk", "segments", "gaps", "grid"]), p=p)
                    if rep % 2 == 0:
                        pre = [tuple(v * 1e6 for v in b[:4]) + (b[4],) if r.random() < 0.2 else b for b in pre]
                    mk = lambda s_, b: ("b", s_) + b
                else:
                    pos = ind in ("ROC", "ER", "FAST")
                    pre = scalar_stream(r, npre, None, p=p, positive=pos)
                    suf = scalar_stream(r, nsuf, rot.pick((ind, "n"), ["walk", "ties", "uniform", "periodic", "segments", "flatafter"]), p=p, positive=True)
                    if rep % 2 == 0:
                        pre = [x * 1e6 if r.random() < 0.2 else x for x in pre]
                    mk = lambda s_, x: ("n", s_, x)
                pr = (p, 0, 0, 2.0 if ind == "BB" else 0.0)
                ops = [new_op(0, ind, pr), new_op(1, ind, pr)] + [mk(0, v) for v in pre]
                for v in suf:
                    ops += [mk(0, v), mk(1, v)]
                cases.append(Case("%s_p%d_%d" % (ind, p, rep), ops, dump=(),
                                  meta={"ind": ind, "p": p, "need": need, "npre": npre, "nsuf": nsuf, "bars": bars}))
    # seed-independent long histories (4300 inputs with two 10^7 x spikes, then the suffix): whatever maintenance code ran every
    # 2^10 / 2^12 updates during the history must not be remembered either
    for ind in LASTN + LASTN1:
        for p in (3, 5):
            need = p + (1 if ind in LASTN1 else 0)
            fd = long_feed(ind, 4300 + need + 6, "plain" if p == 3 else "spike")
            pr = (p, 0, 0, 2.0 if ind == "BB" else 0.0)
            ops = [new_op(0, ind, pr), new_op(1, ind, pr)] + fd[:4300]
            for o in fd[4300:]:
                ops += [o, (o[0], 1) + tuple(o[2:])]
            cases.append(Case("%s_long_p%d" % (ind, p), ops, dump=(),
                              meta={"ind": ind, "p": p, "need": need, "npre": 4300, "nsuf": need + 6, "bars": ind in NO_SCALAR}))
    # K7 (known finding): on the rounding-aligned stream WMA never forgets the drift accumulated over the prefix
    from props.C01 import adversary
    adv = adversary(12000, r)
    ops = [new_op(0, "WMA", (2, 0, 0, 0.0)), new_op(1, "WMA", (2, 0, 0, 0.0))] + [("n", 0, x) for x in adv[:-6]]
    for x in adv[-6:]:
        ops += [("n", 0, x), ("n", 1, x)]
    k7 = Case("K7_WMA_adversary", ops, dump=(), meta={"ind": "WMA", "p": 2, "need": 2, "npre": len(adv) - 6, "nsuf": 6, "bars": False, "k7": True})
    # K8 (known finding): a sum that overflowed never recovers: SMA(2) fed 1.7e308 twice returns inf for ever after
    H = 1.7e308
    ops = [new_op(0, "SMA", (2, 0, 0, 0.0)), new_op(1, "SMA", (2, 0, 0, 0.0)), ("n", 0, H), ("n", 0, H)]
    for x in (1.0, 2.0, 3.0, 4.0):
        ops += [("n", 0, x), ("n", 1, x)]
    k8 = Case("K8_SMA_overflow", ops, dump=(), meta={"ind": "SMA", "p": 2, "need": 2, "npre": 2, "nsuf": 4, "bars": False, "k8": True})
    return with_scaled(cases, r, frac=0.2) + [k7, k8]


def nontrivial(c):
    return c.meta["npre"] > c.meta["p"] and c.meta["nsuf"] >= c.meta["need"] + 2


def check_impl(ctx, cases):
    out = []
    ncmp = 0
    for c in cases:
        ind, p, need = c.meta["ind"], c.meta["p"], c.meta["need"]
        a, b = outs_of(c, 0), outs_of(c, 1)
        a = a[len(a) - len(b):]
        vals = []
        for o in c.ops:
            if o[0] == "n":
                vals.append(abs(o[2]))
            elif o[0] == "b":
                vals += [abs(v) for v in o[3:6]]
        M = max([v for v in vals if v == v and v != float("inf")] + [1e-300])
        t = sum(1 for o in c.ops if o[0] in "nb" and o[1] == 0)
        suf_ops = [c.ops[j] for j, _ in b]
        for k, ((i, oa), (j, ob)) in enumerate(zip(a, b)):
            if k + 1 < need:
                continue
            ncmp += 1
            if oa == ob:
                continue
            fa, fb = f_of(oa), f_of(ob)
            if fa is None or fb is None:
                out.append(Violation("%s(%d): %s vs %s" % (ind, p, oa, ob), case=c))
                break
            ok = True
            if ind in EXACT:
                ok = all(x == y or (x != x and y != y) for x, y in zip(fa, fb))
            elif ind == "SD":
                ok = abs(fa[0] ** 2 - fb[0] ** 2) <= tau(t) * M * M
            elif ind == "BB":
                m = 2.0
                ok = abs(fa[0] - fb[0]) <= tau(t) * M and all(abs((fa[q] - fa[0]) ** 2 - (fb[q] - fb[0]) ** 2) <= tau(t) * M * M * m * m for q in (1, 2))
            elif ind in ("SMA", "WMA", "MAD"):
                ok = abs(fa[0] - fb[0]) <= tau(t) * M
            else:
                # ratios: scale by the condition number estimated from the window (generous)
                win = suf_ops[max(0, k + 1 - need):k + 1]
                if ind == "ROC":
                    ref = abs(win[0][2]) or 1e-300
                    tol = 100 * tau(t) * (M / ref)
                elif ind == "ER":
                    vol = sum(abs(win[q + 1][2] - win[q][2]) for q in range(len(win) - 1)) or 1e-300
                    tol = tau(t) * (M / vol)
                elif ind == "MFI":
                    tps = [(w[5] + w[3] + w[4]) / 3.0 for w in win]
                    flows = [tps[q] * win[q][6] for q in range(1, len(win)) if tps[q] != tps[q - 1]]
                    tot = sum(flows) or 1e-300
                    allflows = [((o[5] + o[3] + o[4]) / 3.0) * o[6] for o in c.ops if o[0] == "b" and o[1] == 0]
                    tol = 100 * tau(t) * (max(allflows + [0.0]) / tot)
                    if max(allflows + [0.0]) / tot > 1000:
                        continue
                else:  # CCI
                    tps = [(w[5] + w[3] + w[4]) / 3.0 for w in win]
                    mean = sum(tps) / len(tps)
                    mad = sum(abs(x - mean) for x in tps) / len(tps) or 1e-300
                    tol = tau(t) * (M / (0.015 * mad))
                    if M / (0.015 * mad) > 1e6 / 0.015:
                        continue
                ok = abs(fa[0] - fb[0]) <= tol * 4
            if not ok:
                key = {"indicator": "WMA", "class": "rounding-aligned-adversary"} if c.meta.get("k7") else None
                if c.meta.get("k8"):
                    key = {"indicator": "SMA", "class": "intermediate-overflow"}
                out.append(Violation("%s(%d): after a history of %d inputs the output %s differs from a fresh instance fed only the last %d inputs (%s) "
                                     "beyond the property's tolerance" % (ind, p, c.meta["npre"] + k + 1, fa, k + 1, fb), case=c, finding_key=key))
                break
        if len(out) > 10:
            break
    ctx.stats["suffix_comparisons"] = ncmp
    return out
