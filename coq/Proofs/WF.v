(* Well-formedness invariants of every indicator state, for an arbitrary number type:
   constructors establish them, next / next_bar / reset preserve them and never panic,
   reset re-creates the constructor's state.  No assumption on the arithmetic of F. *)
From Coq Require Import Lia.
From TA Require Import Base Model Proofs.Prims.
Open Scope N_scope.

Ltac side := solve [ unfold USIZE_MAX, ALLOC_MAX in *; rewrite ?set_nth_length by lia; lia ].
Ltac prims1 d :=
  first
   [ rewrite (idx_ok _ _ d) by side
   | rewrite upd_ok by side
   | rewrite advance_ok by side
   | rewrite uadd_ok by side
   | rewrite fill_ok by side
   | rewrite slice_ok by side
   | rewrite alloc_ok by side ].
Ltac prims d := repeat (prims1 d; cbn [bind]); cbn [bind].

Section WF.
Context {F : Type} (O : Ops F).

Definition ring_wf (period index count : N) (dq : list F) : Prop :=
  0 < period /\ period <= ALLOC_MAX /\ index < period /\ count <= period /\ length dq = N.to_nat period.

Lemma ring_wf_new p c : p <> 0 -> p <= ALLOC_MAX -> ring_wf p 0 0 (repeat c (N.to_nat p)).
Proof. intros; unfold ring_wf; rewrite repeat_length; lia. Qed.

(* ---------------------------------------------------------------- SMA *)
Definition wf_sma (s : @Sma F) := ring_wf (sma_period s) (sma_index s) (sma_count s) (sma_deque s).

Lemma sma_new_ok p : p <> 0 -> p <= ALLOC_MAX ->
  sma_new O p = Ok (mkSma p 0 0 (zero O) (repeat (zero O) (N.to_nat p))).
Proof. intros H1 H2. unfold sma_new. destruct (N.eqb_spec p 0); [lia|]. prims (zero O). reflexivity. Qed.

Lemma sma_new_inv p s : sma_new O p = Ok s -> p <> 0 /\ p <= ALLOC_MAX /\ wf_sma s /\ sma_period s = p.
Proof.
  unfold sma_new. destruct (N.eqb_spec p 0); [discriminate|]. unfold alloc.
  destruct (N.leb_spec p ALLOC_MAX) as [Hle|Hgt]; cbn; [|discriminate]. intros E; injection E as <-.
  repeat split; try assumption; cbn; try lia. rewrite repeat_length; reflexivity.
Qed.

Lemma sma_next_ok s x : wf_sma s ->
  exists s' o, sma_next O s x = Ok (s', o) /\ wf_sma s' /\ sma_period s' = sma_period s.
Proof.
  intros (H1 & H2 & H3 & H4 & H5). unfold sma_next. prims (zero O).
  destruct (N.ltb_spec (sma_count s) (sma_period s)); prims (zero O);
    (eexists; eexists; split; [reflexivity|]; split; [|reflexivity]);
    unfold wf_sma, ring_wf; cbn; rewrite set_nth_length by lia;
    pose proof (advance_lt (sma_period s) (sma_index s) H3); repeat split; lia.
Qed.

Lemma sma_reset_ok s : wf_sma s -> sma_reset O s = sma_new O (sma_period s).
Proof.
  intros (H1 & H2 & H3 & H4 & H5). unfold sma_reset. prims (zero O).
  rewrite sma_new_ok by lia. reflexivity.
Qed.

(* ---------------------------------------------------------------- EMA (no window) *)
Definition wf_ema (s : @Ema F) := 0 < ema_period s.

Lemma ema_new_inv p s : ema_new O p = Ok s -> p <> 0 /\ wf_ema s /\ ema_period s = p /\
  s = mkEma p (div O (two O) (add O (ofN O p) (one O))) (zero O) true.
Proof.
  unfold ema_new. destruct (N.eqb_spec p 0) as [Hz|Hz]; [discriminate|]. intros E; injection E as <-.
  unfold wf_ema; cbn. repeat split; lia.
Qed.
Lemma ema_new_ok p : p <> 0 ->
  ema_new O p = Ok (mkEma p (div O (two O) (add O (ofN O p) (one O))) (zero O) true).
Proof. intros H. unfold ema_new. destruct (N.eqb_spec p 0); [lia|reflexivity]. Qed.
Lemma ema_next_wf s x : wf_ema s -> wf_ema (fst (ema_next O s x)) /\ ema_period (fst (ema_next O s x)) = ema_period s
  /\ ema_k (fst (ema_next O s x)) = ema_k s.
Proof. unfold ema_next, wf_ema. destruct (ema_is_new s); cbn; auto. Qed.

(* a state is "k-consistent" when its smoothing factor is the constructor's function of its period;
   needed for reset = new *)
Definition ema_kc (s : @Ema F) := ema_k s = div O (two O) (add O (ofN O (ema_period s)) (one O)).
Lemma ema_reset_ok s : wf_ema s -> ema_kc s -> Ok (ema_reset O s) = ema_new O (ema_period s).
Proof.
  unfold wf_ema, ema_kc. intros H K. rewrite ema_new_ok by lia. unfold ema_reset. rewrite K. reflexivity.
Qed.
Lemma ema_next_kc s x : ema_kc s -> ema_kc (fst (ema_next O s x)).
Proof. unfold ema_kc, ema_next. destruct (ema_is_new s); cbn; auto. Qed.
Lemma ema_reset_kc s : ema_kc s -> ema_kc (ema_reset O s).
Proof. unfold ema_kc, ema_reset; cbn; auto. Qed.

(* ---------------------------------------------------------------- WMA *)
Definition wf_wma (s : @Wma F) := ring_wf (wma_period s) (wma_index s) (wma_count s) (wma_deque s).

Lemma wma_new_ok p : p <> 0 -> p <= ALLOC_MAX ->
  wma_new O p = Ok (mkWma p 0 0 (zero O) (zero O) (zero O) (repeat (zero O) (N.to_nat p))).
Proof. intros H1 H2. unfold wma_new. destruct (N.eqb_spec p 0); [lia|]. prims (zero O). reflexivity. Qed.

Lemma wma_new_inv p s : wma_new O p = Ok s -> p <> 0 /\ p <= ALLOC_MAX /\ wf_wma s /\ wma_period s = p.
Proof.
  unfold wma_new. destruct (N.eqb_spec p 0); [discriminate|]. unfold alloc.
  destruct (N.leb_spec p ALLOC_MAX) as [Hle|Hgt]; cbn; [|discriminate]. intros E; injection E as <-.
  repeat split; try assumption; cbn; try lia. rewrite repeat_length; reflexivity.
Qed.

Lemma wma_next_ok s x : wf_wma s ->
  exists s' o, wma_next O s x = Ok (s', o) /\ wf_wma s' /\ wma_period s' = wma_period s.
Proof.
  intros (H1 & H2 & H3 & H4 & H5). unfold wma_next. prims (zero O).
  destruct (N.ltb_spec (wma_count s) (wma_period s)); prims (zero O);
    (eexists; eexists; split; [reflexivity|]; split; [|reflexivity]);
    unfold wf_wma, ring_wf; cbn; rewrite set_nth_length by lia;
    pose proof (advance_lt (wma_period s) (wma_index s) H3); repeat split; lia.
Qed.

Lemma wma_reset_ok s : wf_wma s -> wma_reset O s = wma_new O (wma_period s).
Proof.
  intros (H1 & H2 & H3 & H4 & H5). unfold wma_reset. prims (zero O).
  rewrite wma_new_ok by lia. reflexivity.
Qed.

(* ---------------------------------------------------------------- SD *)
Definition wf_sd (s : @Sd F) := ring_wf (sd_period s) (sd_index s) (sd_count s) (sd_deque s).

Lemma sd_new_ok p : p <> 0 -> p <= ALLOC_MAX ->
  sd_new O p = Ok (mkSd p 0 0 (zero O) (zero O) (repeat (zero O) (N.to_nat p))).
Proof. intros H1 H2. unfold sd_new. destruct (N.eqb_spec p 0); [lia|]. prims (zero O). reflexivity. Qed.

Lemma sd_new_inv p s : sd_new O p = Ok s -> p <> 0 /\ p <= ALLOC_MAX /\ wf_sd s /\ sd_period s = p.
Proof.
  unfold sd_new. destruct (N.eqb_spec p 0); [discriminate|]. unfold alloc.
  destruct (N.leb_spec p ALLOC_MAX) as [Hle|Hgt]; cbn; [|discriminate]. intros E; injection E as <-.
  repeat split; try assumption; cbn; try lia. rewrite repeat_length; reflexivity.
Qed.

Lemma sd_next_ok s x : wf_sd s ->
  exists s' o, sd_next O s x = Ok (s', o) /\ wf_sd s' /\ sd_period s' = sd_period s.
Proof.
  intros (H1 & H2 & H3 & H4 & H5). unfold sd_next. prims (zero O).
  destruct (N.ltb_spec (sd_count s) (sd_period s)); prims (zero O);
    (eexists; eexists; split; [reflexivity|]; split; [|reflexivity]);
    unfold wf_sd, ring_wf; cbn; rewrite set_nth_length by lia;
    pose proof (advance_lt (sd_period s) (sd_index s) H3); repeat split; lia.
Qed.

Lemma sd_reset_ok s : wf_sd s -> sd_reset O s = sd_new O (sd_period s).
Proof.
  intros (H1 & H2 & H3 & H4 & H5). unfold sd_reset. prims (zero O).
  rewrite sd_new_ok by lia. reflexivity.
Qed.

(* ---------------------------------------------------------------- MAD *)
Definition wf_mad (s : @Mad F) := ring_wf (mad_period s) (mad_index s) (mad_count s) (mad_deque s).

Lemma mad_new_ok p : p <> 0 -> p <= ALLOC_MAX ->
  mad_new O p = Ok (mkMad p 0 0 (zero O) (repeat (zero O) (N.to_nat p))).
Proof. intros H1 H2. unfold mad_new. destruct (N.eqb_spec p 0); [lia|]. prims (zero O). reflexivity. Qed.

Lemma mad_new_inv p s : mad_new O p = Ok s -> p <> 0 /\ p <= ALLOC_MAX /\ wf_mad s /\ mad_period s = p.
Proof.
  unfold mad_new. destruct (N.eqb_spec p 0); [discriminate|]. unfold alloc.
  destruct (N.leb_spec p ALLOC_MAX) as [Hle|Hgt]; cbn; [|discriminate]. intros E; injection E as <-.
  repeat split; try assumption; cbn; try lia. rewrite repeat_length; reflexivity.
Qed.

Lemma mad_next_ok s x : wf_mad s ->
  exists s' o, mad_next O s x = Ok (s', o) /\ wf_mad s' /\ mad_period s' = mad_period s.
Proof.
  intros (H1 & H2 & H3 & H4 & H5). unfold mad_next.
  destruct (N.ltb_spec (mad_count s) (mad_period s)); prims (zero O);
    (eexists; eexists; split; [reflexivity|]; split; [|reflexivity]);
    unfold wf_mad, ring_wf; cbn; rewrite set_nth_length by lia;
    pose proof (advance_lt (mad_period s) (mad_index s) H3); repeat split; lia.
Qed.

Lemma mad_reset_ok s : wf_mad s -> mad_reset O s = mad_new O (mad_period s).
Proof.
  intros (H1 & H2 & H3 & H4 & H5). unfold mad_reset. prims (zero O).
  rewrite mad_new_ok by lia. reflexivity.
Qed.

(* ---------------------------------------------------------------- Minimum / Maximum *)
Definition wf_min (s : @Min F) :=
  0 < min_period s /\ min_period s <= ALLOC_MAX /\ min_min_index s < min_period s /\
  min_cur_index s < min_period s /\ length (min_deque s) = N.to_nat (min_period s).

Lemma min_new_ok p : p <> 0 -> p <= ALLOC_MAX ->
  min_new O p = Ok (mkMin p 0 0 (repeat (inf O) (N.to_nat p))).
Proof. intros H1 H2. unfold min_new. destruct (N.eqb_spec p 0); [lia|]. prims (zero O). reflexivity. Qed.

Lemma min_new_inv p s : min_new O p = Ok s -> p <> 0 /\ p <= ALLOC_MAX /\ wf_min s /\ min_period s = p.
Proof.
  unfold min_new. destruct (N.eqb_spec p 0); [discriminate|]. unfold alloc.
  destruct (N.leb_spec p ALLOC_MAX) as [Hle|Hgt]; cbn; [|discriminate]. intros E; injection E as <-.
  unfold wf_min; cbn. rewrite repeat_length. repeat split; lia.
Qed.

(* the scan returns a position inside the buffer *)
Lemma find_min_index_lt (dq : list F) : dq <> [] -> (N.to_nat (find_min_index O dq) < length dq)%nat.
Proof.
  intros Hne. unfold find_min_index.
  assert (G : forall l m idx i, (idx < i \/ (idx = 0 /\ i = 0)) ->
            let '(_, idx', i') := fold_left (fun '(m, index, i) val =>
                 if ltb O val m then (val, i, i + 1) else (m, index, i + 1)) l (m, idx, i) in
            i' = i + N.of_nat (length l) /\ (idx' < i' \/ (idx' = 0 /\ i' = 0))).
  { induction l as [|a l IH]; intros m idx i Hi; cbn [fold_left length].
    - split; [lia|exact Hi].
    - destruct (ltb O a m).
      + specialize (IH a i (i + 1)). destruct (fold_left _ l (a, i, i + 1)) as [[m' idx'] i'].
        destruct IH as [E1 E2]; [lia|]. split; [lia|exact E2].
      + specialize (IH m idx (i + 1)). destruct (fold_left _ l (m, idx, i + 1)) as [[m' idx'] i'].
        destruct IH as [E1 E2]; [lia|]. split; [lia|exact E2]. }
  specialize (G dq (inf O) 0 0 (or_intror (conj eq_refl eq_refl))).
  destruct (fold_left _ dq (inf O, 0, 0)) as [[m' idx'] i']. destruct G as [E1 E2].
  destruct dq; [congruence|]. cbn [length] in *. lia.
Qed.

Lemma min_next_ok s x : wf_min s ->
  exists s' o, min_next O s x = Ok (s', o) /\ wf_min s' /\ min_period s' = min_period s.
Proof.
  intros (H1 & H2 & H3 & H4 & H5). unfold min_next. prims (zero O).
  set (dq := set_nth (min_deque s) (N.to_nat (min_cur_index s)) x).
  assert (Ldq : length dq = N.to_nat (min_period s)) by (unfold dq; rewrite set_nth_length; lia).
  assert (Hne : dq <> []) by (intros E; rewrite E in Ldq; cbn in Ldq; lia).
  pose proof (find_min_index_lt dq Hne) as Hf.
  set (mi := if ltb O x _ then _ else _).
  assert (Hmi : mi < min_period s).
  { unfold mi. destruct (ltb O x _); [exact H4|]. destruct (N.eqb_spec (min_min_index s) (min_cur_index s)); lia. }
  rewrite (idx_ok dq mi (zero O)) by lia. cbn [bind].
  eexists; eexists; split; [reflexivity|]. split; [|reflexivity].
  unfold wf_min; cbn. pose proof (advance_lt _ _ H4). repeat split; lia.
Qed.

Lemma min_reset_ok s : wf_min s ->
  min_reset O s = Ok (mkMin (min_period s) (min_min_index s) (min_cur_index s) (repeat (inf O) (N.to_nat (min_period s)))).
Proof. intros (H1 & H2 & H3 & H4 & H5). unfold min_reset. prims (zero O). reflexivity. Qed.

Lemma min_reset_wf s : wf_min s -> forall s', min_reset O s = Ok s' -> wf_min s' /\ min_period s' = min_period s.
Proof.
  intros W s' E. rewrite (min_reset_ok s W) in E. injection E as <-.
  destruct W as (H1 & H2 & H3 & H4 & H5). unfold wf_min; cbn. rewrite repeat_length. repeat split; lia.
Qed.

Definition wf_max (s : @Max F) :=
  0 < max_period s /\ max_period s <= ALLOC_MAX /\ max_max_index s < max_period s /\
  max_cur_index s < max_period s /\ length (max_deque s) = N.to_nat (max_period s).

Lemma max_new_ok p : p <> 0 -> p <= ALLOC_MAX ->
  max_new O p = Ok (mkMax p 0 0 (repeat (ninf O) (N.to_nat p))).
Proof. intros H1 H2. unfold max_new. destruct (N.eqb_spec p 0); [lia|]. prims (zero O). reflexivity. Qed.

Lemma max_new_inv p s : max_new O p = Ok s -> p <> 0 /\ p <= ALLOC_MAX /\ wf_max s /\ max_period s = p.
Proof.
  unfold max_new. destruct (N.eqb_spec p 0); [discriminate|]. unfold alloc.
  destruct (N.leb_spec p ALLOC_MAX) as [Hle|Hgt]; cbn; [|discriminate]. intros E; injection E as <-.
  unfold wf_max; cbn. rewrite repeat_length. repeat split; lia.
Qed.

Lemma find_max_index_lt (dq : list F) : dq <> [] -> (N.to_nat (find_max_index O dq) < length dq)%nat.
Proof.
  intros Hne. unfold find_max_index.
  assert (G : forall l m idx i, (idx < i \/ (idx = 0 /\ i = 0)) ->
            let '(_, idx', i') := fold_left (fun '(m, index, i) val =>
                 if ltb O m val then (val, i, i + 1) else (m, index, i + 1)) l (m, idx, i) in
            i' = i + N.of_nat (length l) /\ (idx' < i' \/ (idx' = 0 /\ i' = 0))).
  { induction l as [|a l IH]; intros m idx i Hi; cbn [fold_left length].
    - split; [lia|exact Hi].
    - destruct (ltb O m a).
      + specialize (IH a i (i + 1)). destruct (fold_left _ l (a, i, i + 1)) as [[m' idx'] i'].
        destruct IH as [E1 E2]; [lia|]. split; [lia|exact E2].
      + specialize (IH m idx (i + 1)). destruct (fold_left _ l (m, idx, i + 1)) as [[m' idx'] i'].
        destruct IH as [E1 E2]; [lia|]. split; [lia|exact E2]. }
  specialize (G dq (ninf O) 0 0 (or_intror (conj eq_refl eq_refl))).
  destruct (fold_left _ dq (ninf O, 0, 0)) as [[m' idx'] i']. destruct G as [E1 E2].
  destruct dq; [congruence|]. cbn [length] in *. lia.
Qed.

Lemma max_next_ok s x : wf_max s ->
  exists s' o, max_next O s x = Ok (s', o) /\ wf_max s' /\ max_period s' = max_period s.
Proof.
  intros (H1 & H2 & H3 & H4 & H5). unfold max_next. prims (zero O).
  set (dq := set_nth (max_deque s) (N.to_nat (max_cur_index s)) x).
  assert (Ldq : length dq = N.to_nat (max_period s)) by (unfold dq; rewrite set_nth_length; lia).
  assert (Hne : dq <> []) by (intros E; rewrite E in Ldq; cbn in Ldq; lia).
  pose proof (find_max_index_lt dq Hne) as Hf.
  set (mi := if ltb O _ x then _ else _).
  assert (Hmi : mi < max_period s).
  { unfold mi. destruct (ltb O _ x); [exact H4|]. destruct (N.eqb_spec (max_max_index s) (max_cur_index s)); lia. }
  rewrite (idx_ok dq mi (zero O)) by lia. cbn [bind].
  eexists; eexists; split; [reflexivity|]. split; [|reflexivity].
  unfold wf_max; cbn. pose proof (advance_lt _ _ H4). repeat split; lia.
Qed.

Lemma max_reset_ok s : wf_max s ->
  max_reset O s = Ok (mkMax (max_period s) (max_max_index s) (max_cur_index s) (repeat (ninf O) (N.to_nat (max_period s)))).
Proof. intros (H1 & H2 & H3 & H4 & H5). unfold max_reset. prims (zero O). reflexivity. Qed.

Lemma max_reset_wf s : wf_max s -> forall s', max_reset O s = Ok s' -> wf_max s' /\ max_period s' = max_period s.
Proof.
  intros W s' E. rewrite (max_reset_ok s W) in E. injection E as <-.
  destruct W as (H1 & H2 & H3 & H4 & H5). unfold wf_max; cbn. rewrite repeat_length. repeat split; lia.
Qed.

(* ---------------------------------------------------------------- ROC *)
Definition wf_roc (s : @Roc F) :=
  0 < roc_period s /\ roc_period s <= ALLOC_MAX /\ roc_index s < roc_period s /\
  roc_count s <= roc_period s + 1 /\ length (roc_deque s) = N.to_nat (roc_period s).

Lemma roc_new_ok p : p <> 0 -> p <= ALLOC_MAX ->
  roc_new O p = Ok (mkRoc p 0 0 (repeat (zero O) (N.to_nat p))).
Proof. intros H1 H2. unfold roc_new. destruct (N.eqb_spec p 0); [lia|]. prims (zero O). reflexivity. Qed.

Lemma roc_new_inv p s : roc_new O p = Ok s -> p <> 0 /\ p <= ALLOC_MAX /\ wf_roc s /\ roc_period s = p.
Proof.
  unfold roc_new. destruct (N.eqb_spec p 0); [discriminate|]. unfold alloc.
  destruct (N.leb_spec p ALLOC_MAX) as [Hle|Hgt]; cbn; [|discriminate]. intros E; injection E as <-.
  unfold wf_roc; cbn. rewrite repeat_length. repeat split; lia.
Qed.

Lemma roc_next_ok s x : wf_roc s ->
  exists s' o, roc_next O s x = Ok (s', o) /\ wf_roc s' /\ roc_period s' = roc_period s.
Proof.
  intros (H1 & H2 & H3 & H4 & H5). unfold roc_next.
  destruct (N.ltb_spec (roc_period s) (roc_count s)); prims (zero O).
  - eexists; eexists; split; [reflexivity|]; split; [|reflexivity].
    unfold wf_roc; cbn; rewrite set_nth_length by lia.
    pose proof (advance_lt _ _ H3); repeat split; lia.
  - destruct (N.eqb_spec (roc_count s + 1) 1); prims (zero O);
    (eexists; eexists; split; [reflexivity|]; split; [|reflexivity]);
    unfold wf_roc; cbn; rewrite set_nth_length by lia;
    pose proof (advance_lt _ _ H3); repeat split; lia.
Qed.

Lemma roc_reset_ok s : wf_roc s -> roc_reset O s = roc_new O (roc_period s).
Proof.
  intros (H1 & H2 & H3 & H4 & H5). unfold roc_reset. prims (zero O).
  rewrite roc_new_ok by lia. reflexivity.
Qed.

(* ---------------------------------------------------------------- ER *)
(* the loop slices deque[index..count] and deque[0..index]: both ranges are ordered because
   index = count mod period while warming up and count = period afterwards *)
Definition wf_er (s : @Er F) :=
  0 < er_period s /\ er_period s <= ALLOC_MAX /\ er_index s < er_period s /\
  er_count s <= er_period s /\ length (er_deque s) = N.to_nat (er_period s) /\
  (er_count s < er_period s -> er_index s = er_count s).

Lemma er_new_ok p : p <> 0 -> p <= ALLOC_MAX ->
  er_new O p = Ok (mkEr p 0 0 (repeat (zero O) (N.to_nat p))).
Proof. intros H1 H2. unfold er_new. destruct (N.eqb_spec p 0); [lia|]. prims (zero O). reflexivity. Qed.

Lemma er_new_inv p s : er_new O p = Ok s -> p <> 0 /\ p <= ALLOC_MAX /\ wf_er s /\ er_period s = p.
Proof.
  unfold er_new. destruct (N.eqb_spec p 0); [discriminate|]. unfold alloc.
  destruct (N.leb_spec p ALLOC_MAX) as [Hle|Hgt]; cbn; [|discriminate]. intros E; injection E as <-.
  unfold wf_er; cbn. rewrite repeat_length. repeat split; lia.
Qed.

Lemma er_next_ok s x : wf_er s ->
  exists s' o, er_next O s x = Ok (s', o) /\ wf_er s' /\ er_period s' = er_period s.
Proof.
  intros (H1 & H2 & H3 & H4 & H5 & H6). unfold er_next.
  pose proof (advance_lt _ _ H3) as Ha.
  destruct (N.leb_spec (er_period s) (er_count s)); prims (zero O).
  - destruct (er_vol_loop _ _ _) as [v p']. eexists; eexists; split; [reflexivity|]; split; [|reflexivity].
    unfold wf_er; cbn; rewrite set_nth_length by lia. repeat split; lia.
  - assert (Hs : (if er_index s + 1 <? er_period s then er_index s + 1 else 0) <= er_count s + 1).
    { destruct (N.ltb_spec (er_index s + 1) (er_period s)); lia. }
    prims (zero O).
    destruct (er_vol_loop _ _ _) as [v p']. eexists; eexists; split; [reflexivity|]; split; [|reflexivity].
    unfold wf_er; cbn; rewrite set_nth_length by lia. repeat split; try lia.
    intros Hlt. destruct (N.ltb_spec (er_index s + 1) (er_period s)); lia.
Qed.

Lemma er_reset_ok s : wf_er s -> er_reset O s = er_new O (er_period s).
Proof.
  intros (H1 & H2 & H3 & H4 & H5 & H6). unfold er_reset. prims (zero O).
  rewrite er_new_ok by lia. reflexivity.
Qed.

(* ---------------------------------------------------------------- MFI *)
Definition wf_mfi (s : @Mfi F) := ring_wf (mfi_period s) (mfi_index s) (mfi_count s) (mfi_deque s).

Lemma mfi_new_ok p : p <> 0 -> p <= ALLOC_MAX ->
  mfi_new O p = Ok (mkMfi p 0 0 (zero O) (zero O) (zero O) (repeat (zero O) (N.to_nat p))).
Proof. intros H1 H2. unfold mfi_new. destruct (N.eqb_spec p 0); [lia|]. prims (zero O). reflexivity. Qed.

Lemma mfi_new_inv p s : mfi_new O p = Ok s -> p <> 0 /\ p <= ALLOC_MAX /\ wf_mfi s /\ mfi_period s = p.
Proof.
  unfold mfi_new. destruct (N.eqb_spec p 0); [discriminate|]. unfold alloc.
  destruct (N.leb_spec p ALLOC_MAX) as [Hle|Hgt]; cbn; [|discriminate]. intros E; injection E as <-.
  repeat split; try assumption; cbn; try lia. rewrite repeat_length; reflexivity.
Qed.

Lemma mfi_next_ok s b : wf_mfi s ->
  exists s' o, mfi_next_bar O s b = Ok (s', o) /\ wf_mfi s' /\ mfi_period s' = mfi_period s.
Proof.
  intros (H1 & H2 & H3 & H4 & H5). unfold mfi_next_bar. prims (zero O).
  pose proof (advance_lt _ _ H3) as Ha.
  assert (Flow : forall c pos ng, c <= mfi_period s -> exists s' o,
     (let tp := div O (add O (add O (b_close b) (b_high b)) (b_low b)) (three O) in
      '(pos0, ng0, v) <-
         (if ltb O (mfi_prev_tp s) tp then Ok (add O pos (mul O tp (b_volume b)), ng, mul O tp (b_volume b))
          else if ltb O tp (mfi_prev_tp s) then Ok (pos, add O ng (mul O tp (b_volume b)), neg O (mul O tp (b_volume b)))
          else Ok (pos, ng, zero O)) ;;
       dq <- upd (mfi_deque s) (if mfi_index s + 1 <? mfi_period s then mfi_index s + 1 else 0) v ;;
       Ok (mkMfi (mfi_period s) (if mfi_index s + 1 <? mfi_period s then mfi_index s + 1 else 0) c tp pos0 ng0 dq,
           mul O (div O pos0 (add O pos0 ng0)) (c100 O))) = Ok (s', o) /\ wf_mfi s' /\ mfi_period s' = mfi_period s).
  { intros c pos ng Hc. cbv zeta.
    destruct (ltb O (mfi_prev_tp s) _); [|destruct (ltb O _ (mfi_prev_tp s))]; cbn [bind]; prims (zero O);
    (eexists; eexists; split; [reflexivity|]; split; [|reflexivity]);
    unfold wf_mfi, ring_wf; cbn; rewrite set_nth_length by lia; repeat split; lia. }
  destruct (N.ltb_spec (mfi_count s) (mfi_period s)); prims (zero O).
  - destruct (N.eqb_spec (mfi_count s + 1) 1).
    + eexists; eexists; split; [reflexivity|]; split; [|reflexivity].
      unfold wf_mfi, ring_wf; cbn; repeat split; lia.
    + apply Flow. lia.
  - destruct (is_sign_positive O _); apply Flow; lia.
Qed.

Lemma mfi_reset_ok s : wf_mfi s -> mfi_reset O s = mfi_new O (mfi_period s).
Proof.
  intros (H1 & H2 & H3 & H4 & H5). unfold mfi_reset. prims (zero O).
  rewrite mfi_new_ok by lia. reflexivity.
Qed.

End WF.
