# C10 — Feeding a bar equals feeding its documented price field; other fields ignored
from props.util import *

rule = ("for each of the 22 indicators and periods 1..4 (plus sampled larger): slot 0 is fed a stream of user-struct bars whose five fields "
        "vary independently (not only consistent OHLC; grids with ties; occasional -0.0); slot 1 is fed, in lock-step, the documented "
        "scalar field (close / low / high) where a scalar path exists; slot 2 the same bars with every field the indicator is not "
        "documented to read replaced by unrelated values; slot 3 DataItems carrying the same numbers (built by the builder for valid bars, obtained by deserialising the five numbers for inconsistent ones). For FastStochastic, "
        "SlowStochastic, TrueRange, ATR and KeltnerChannel a second family feeds one-price bars (o=h=l=c=x) against the scalar path on x. "
        "Non-trivial: distinct case with at least period+1 bars whose fields are not all equal")
assumptions = ["the quantifier over user types implementing the price traits is covered by a struct of five independent numbers; an impl with side effects is outside the model"]

CLOSE_ONLY = {"SMA", "EMA", "WMA", "SD", "MAD", "RSI", "MACD", "PPO", "ER", "BB", "ROC"}
READS = {}
for k in CLOSE_ONLY:
    READS[k] = (0, 0, 0, 1, 0)
READS.update({"MIN": (0, 0, 1, 0, 0), "MAX": (0, 1, 0, 0, 0), "MFI": (0, 1, 1, 1, 1), "OBV": (0, 0, 0, 1, 1)})
for k in ("TR", "ATR", "FAST", "SLOW", "KC", "CE", "CCI"):
    READS[k] = (0, 1, 1, 1, 0)
ONEPRICE = ["FAST", "SLOW", "TR", "ATR", "KC"]


def gen_cases(ctx):
    r = ctx.rng
    cases = []
    for ind in ALL:
        plist = [1, 2, 3, 4] if nper(ind) > 0 else [0]
        grid = params_grid(ind, plist)
        grid = r.sample(grid, min(len(grid), 4 if not ctx.thorough else 16))
        if ctx.thorough and nper(ind) > 0:
            grid += params_grid(ind, [9, 33])[:2]
        for gi, pr in enumerate(grid):
            p = max(pr[0], pr[1], pr[2], 1)
            for style in (["free", "walk", r.choice(["tinybars", "segments", "gaps", "grid"])] if not ctx.thorough else ["free", "walk", "grid", "free", "tinybars", "segments", "gaps"]):
                n = 2 * p + 6 if not ctx.thorough else 4 * p + 30
                bars = bar_stream(r, n, style)
                if style == "free":
                    bars = [tuple((-0.0 if (v == 0.0 and r.random() < 0.5) else v) for v in b) for b in bars]
                ops = [new_op(s_, ind, pr) for s_ in range(4)]
                rd = READS[ind]
                field = {"MIN": 2, "MAX": 1}.get(ind, 3)
                for b in bars:
                    ops.append(("b", 0) + b)
                    if ind in CLOSE_ONLY or ind in ("MIN", "MAX"):
                        ops.append(("n", 1, b[field]))
                    b2 = tuple(b[i] if rd[i] else r.choice([r.uniform(-50, 50), 0.0, 1e9, -7.0]) for i in range(5))
                    ops.append(("b", 2) + b2)
                    if style in ("walk", "segments", "gaps", "tinybars"):
                        ops.append(("i", 3) + b)
                    elif style == "free":
                        # inconsistent numbers reach a DataItem only through deserialisation (the builder rejects them)
                        ops.append(("j", 3) + b)
                cases.append(Case("%s_g%d_%s_%d" % (ind, gi, style, len(cases)), ops, dump=(0, 2),
                                  meta={"ind": ind, "params": pr[:3], "style": style, "n": n, "fam": "fields"}))
    for ind in ONEPRICE:
        for p in [1, 2, 3, 5] + ([14] if ctx.thorough else []):
            for j in range(2 if not ctx.thorough else 6):
                pr = (p, r.choice([1, 2, 3]) if ind == "SLOW" else 0, 0, 2.0 if ind == "KC" else 0.0)
                xs = scalar_stream(r, 3 * p + 8, ["ulps", "walk", "ties", "uniform", "grid"][(j + p) % 5] if not ctx.thorough else r.choice(["walk", "ties", "uniform", "grid", "ulps"]), positive=False)
                ops = [new_op(0, ind, pr), new_op(1, ind, pr)]
                for x in xs:
                    ops += [("b", 0, x, x, x, x, r.uniform(0, 10)), ("n", 1, x)]
                cases.append(Case("one_%s_p%d_%d" % (ind, p, j), ops, dump=(),
                                  meta={"ind": ind, "params": pr[:3], "style": "oneprice", "n": len(xs), "fam": "oneprice"}))
    # one-price bars near f64::MAX (seed-independent): window ranges that overflow — a bar path that treats overflow differently from the
    # scalar path (FastStochastic / SlowStochastic compare bit for bit; TrueRange / ATR overflow identically in both paths)
    huge = []      # not rescaled: a rescaled copy would feed infinities
    for ind in ("FAST", "SLOW", "TR", "ATR"):
        for p in (2, 3):
            pr = (p, 2 if ind == "SLOW" else 0, 0, 0.0)
            xs = [-1e308, 1e308, 5e307, 1.7e308, -1.7e308, 3e307, 1e308, 1e308, -5e307, 0.0, 1.5e308]
            ops = [new_op(0, ind, pr), new_op(1, ind, pr)]
            for x in xs:
                ops += [("b", 0, x, x, x, x, 1.0), ("n", 1, x)]
            huge.append(Case("one_%s_p%d_huge" % (ind, p), ops, dump=(),
                              meta={"ind": ind, "params": pr[:3], "style": "oneprice", "n": len(xs), "fam": "oneprice_huge"}))
    # ... and one-price bars carrying NaN / infinities (seed-independent), for FastStochastic / SlowStochastic only: their two paths take
    # the same step for EVERY float (C10_fast/slow_one_price_binary64); TrueRange's bar path legitimately differs from the scalar path
    # after a NaN close (max3 drops the NaN, |x - NaN| does not), so it is claimed — and proved — for finite prices only
    for ind in ("FAST", "SLOW"):
        for p in (2, 3):
            pr = (p, 2 if ind == "SLOW" else 0, 0, 0.0)
            xs = [1.0, 2.0, float("nan"), 3.0, float("inf"), 2.0, float("-inf"), 1.0, 1.5, 2.5, float("nan"), float("nan"), 4.0, 5.0, 6.0, 7.0]
            ops = [new_op(0, ind, pr), new_op(1, ind, pr)]
            for x in xs:
                ops += [("b", 0, x, x, x, x, 1.0), ("n", 1, x)]
            huge.append(Case("one_%s_p%d_nonfinite" % (ind, p), ops, dump=(),
                             meta={"ind": ind, "params": pr[:3], "style": "oneprice", "n": len(xs), "fam": "oneprice_huge"}))
    tiny = [Case(c.cid + "_x2^-60", scale_ops(c.ops, -60), dump=c.dump, meta=dict(c.meta, scale=-60)) for c in cases if c.meta["fam"] == "oneprice"]
    return with_scaled(cases, r) + tiny + huge


def nontrivial(c):
    bars = [o[2:7] for o in c.ops if o[0] == "b" and o[1] == 0]
    return len(bars) >= max(c.meta["params"]) + 1 and len(set(bars)) > 1


def check_impl(ctx, cases):
    out = []
    for c in cases:
        ind = c.meta["ind"]
        a = outs_of(c, 0)
        if c.meta["fam"] in ("oneprice", "oneprice_huge"):
            b = outs_of(c, 1)
            for k, ((i, oa), (j, ob)) in enumerate(zip(a, b)):
                rel = 1e-12 if ind == "KC" else 0.0
                ok = same_obs(oa, ob, rel=rel)
                if not ok and ind == "KC":
                    # within rounding of (x+x+x)/3: compare relative to the price level
                    x = abs(c.ops[i][2]) or 1.0
                    ok = all(abs(u - v) <= 1e-12 * max(x, abs(u), abs(v)) for u, v in zip(f_of(oa), f_of(ob)))
                if not ok:
                    out.append(Violation("%s%s: a one-price bar and the scalar path disagree at step %d: %s vs %s"
                                         % (ind, c.meta["params"], k + 1, oa, ob), case=c))
                    break
            continue
        for slot, what in ((1, "the documented scalar field"), (2, "bars differing only in fields it is not documented to read"),
                           (3, "DataItems carrying the same numbers")):
            b = outs_of(c, slot)
            if not b:
                continue
            # slot 3 only receives valid bars; align by op position
            if slot == 3:
                pairs = []
                pos_a = {i: oa for i, oa in a}
                for j, ob in b:
                    # the matching bar op for slot 0 is the closest earlier 'b 0'
                    ia = max(i for i in pos_a if i < j)
                    pairs.append((ia, pos_a[ia], j, ob))
                if any(isinstance(ob, tuple) and ob[0] == "err" for _, _, _, ob in pairs):
                    continue   # a bar the builder rejects: DataItem path not applicable
                if len(pairs) != len(a):
                    continue
            else:
                pairs = [(i, oa, j, ob) for (i, oa), (j, ob) in zip(a, b)]
            for k, (i, oa, j, ob) in enumerate(pairs):
                if not same_obs(oa, ob, rel=1e-12):
                    out.append(Violation("%s%s: fed bars vs fed %s disagree at step %d: op %d -> %s, op %d -> %s"
                                         % (ind, c.meta["params"], what, k + 1, i + 1, oa, j + 1, ob), case=c))
                    break
        if len(out) > 10:
            break
    return out
