(* SimpleMovingAverage on binary64: forward error bound of the running-sum implementation against the exact mean of
   the window, by induction over the stream, from the rounding model of FloatErr.v (Flocq). No overflow is assumed
   through an explicit magnitude bound M on the inputs. *)
From Coq Require Import Reals Lra Lia ZArith List Floats.
From Flocq Require Import Core.
From TA Require Import Base Model FloatInst Proofs.Prims Proofs.WF Proofs.Ring Proofs.XBase Proofs.FloatErr.
Import ListNotations.
Open Scope R_scope.
Local Notation O := FOps.
Local Notation float := PrimFloat.float.

Definition okin (M : R) (x : float) : Prop := finF x /\ Rabs (FR x) <= M.

Lemma okin_zero M : 0 <= M -> okin M 0%float.
Proof. intros H. split; [exact finF_zero|]. rewrite FR_zero, Rabs_R0. exact H. Qed.

Lemma u_pos : 0 < u. Proof. unfold u. apply Rmult_lt_0_compat; [lra|apply bpow_gt_0]. Qed.
Lemma u_le : u <= / 1000.
Proof.
  unfold u. apply Rle_trans with (/ 2 * bpow radix2 (-10)).
  - apply Rmult_le_compat_l; [lra|]. apply bpow_le. cbn. lia.
  - change (bpow radix2 (-10)) with (/ 1024). lra.
Qed.
Lemma eta_pos : 0 < eta. Proof. unfold eta. apply Rmult_lt_0_compat; [lra|apply bpow_gt_0]. Qed.
Lemma eta_le : eta <= / 1000.
Proof.
  unfold eta. apply Rle_trans with (/ 2 * bpow radix2 (-10)); [|cbn; lra].
  apply Rmult_le_compat_l; [lra|]. apply bpow_le. cbn. lia.
Qed.

Lemma Rsum_abs_le (l : list float) M : Forall (okin M) l -> Rabs (Rsum (map FR l)) <= INR (length l) * M.
Proof.
  induction 1 as [|x l [_ Hx] _ IH]; [cbn; rewrite Rabs_R0; lra|].
  cbn [map Rsum length]. rewrite S_INR. eapply Rle_trans; [apply Rabs_triang|]. lra.
Qed.

Lemma Forall_lastn {A} (P : A -> Prop) n l : Forall P l -> Forall P (lastn n l).
Proof.
  intros H. unfold lastn. generalize (length l - n)%nat as k. intros k. revert l H.
  induction k as [|k IH]; intros l H; [exact H|]. destruct l as [|a l]; [constructor|]. cbn [skipn]. apply IH. now inversion H.
Qed.

Lemma Forall_padded {A} (P : A -> Prop) d n l : P d -> Forall P l -> Forall P (padded d n l).
Proof. intros Hd H. unfold padded. apply Forall_app. split; [apply Forall_forall; intros x Hx; apply repeat_spec in Hx; now subst|exact H]. Qed.

Lemma lastn_map_ {A B} (f : A -> B) n l : lastn n (map f l) = map f (lastn n l).
Proof. unfold lastn. rewrite map_length, skipn_map. reflexivity. Qed.

Lemma map_padded (h : list float) p : map FR (padded 0%float p h) = padded 0 p (map FR h).
Proof.
  unfold padded. rewrite map_app. f_equal. induction p as [|p IH]; [reflexivity|]. cbn [repeat map]. rewrite IH, FR_zero. reflexivity.
Qed.

Definition fsma_inv (s : @Sma float) (h : list float) (E : R) : Prop :=
  let p := N.to_nat (sma_period s) in
  wf_sma s /\
  rot (N.to_nat (sma_index s)) (sma_deque s) = lastn p (padded 0%float p h) /\
  sma_count s = N.of_nat (Nat.min (length h) p) /\
  finF (sma_sum s) /\ Rabs (FR (sma_sum s) - Rsum (map FR (lastn p h))) <= E.

Lemma fsma_inv_new p s : sma_new O p = Ok s -> fsma_inv s [] 0.
Proof.
  intros H. pose proof (sma_new_inv O p s H) as (A & B & W & Pe).
  rewrite sma_new_ok in H by assumption. injection H as <-. unfold fsma_inv. cbn [sma_period sma_index sma_count sma_sum sma_deque].
  split; [exact W|]. split; [rewrite rot_0, lastn_padded_nil; reflexivity|]. split; [reflexivity|].
  split; [exact finF_zero|]. change (FR (zero O)) with 0. replace (lastn (N.to_nat p) (@nil float)) with (@nil float) by (unfold lastn; destruct (N.to_nat p); reflexivity). cbn. rewrite Rminus_0_r, Rabs_R0. lra.
Qed.

Lemma fsma_step s h x M E : 0 <= M -> 0 <= E -> fsma_inv s h E -> Forall (okin M) h -> okin M x ->
  (sma_period s < 9007199254740992)%N ->
  2 * ((INR (N.to_nat (sma_period s)) + 2) * M + E + 1) <= BIG ->
  let p := N.to_nat (sma_period s) in
  let k := INR (Nat.min (length h) p) in
  let E' := E * (1 + u) * (1 + u) + 3 * (u * (k + 1) * M + eta) in
  let w' := lastn p (h ++ [x]) in
  exists s' o, sma_next O s x = Ok (s', o) /\ fsma_inv s' (h ++ [x]) E' /\ sma_period s' = sma_period s /\
    finF o /\ Rabs (FR o - mean (map FR w')) <= E' / INR (length w') * (1 + u) + u * M + eta.
Proof.
  intros HM HE (W & Hrot & Hcnt & Fsum & Hsum) Hh [Fx Hx] Hp53 Hbig p k E' w'. pose proof W as (H1 & H2 & H3 & H4 & H5).
  fold p in Hrot, Hcnt, Hsum, Hbig.
  assert (Hp : (1 <= p)%nat) by (unfold p; lia).
  destruct (ring_step (sma_deque s) (sma_period s) (sma_index s) x 0%float H1 H3 H2 H5) as (E1 & E2 & E3 & E4 & E5).
  unfold sma_next. rewrite E1, E2, E3. cbn [bind].
  set (w := lastn p (padded 0%float p h)) in *.
  assert (Hw : w <> []) by (apply lastn_padded_ne; exact Hp).
  rewrite Hrot in *.
  (* count *)
  set (c' := if (sma_count s <? sma_period s)%N then (sma_count s + 1)%N else sma_count s).
  assert (Hc' : c' = N.of_nat (Nat.min (length (h ++ [x])) p)).
  { unfold c'. rewrite Hcnt, app_length. cbn [length].
    destruct (N.ltb_spec (N.of_nat (Nat.min (length h) p)) (sma_period s)); unfold p in *; lia. }
  assert (Ecount : (if (sma_count s <? sma_period s)%N then uadd (sma_count s) 1 else Ok (sma_count s)) = Ok c').
  { unfold c'. destruct (N.ltb_spec (sma_count s) (sma_period s)); [|reflexivity].
    apply uadd_ok. unfold ALLOC_MAX, USIZE_MAX in *. lia. }
  rewrite Ecount. cbn [bind]. clearbody c'. subst c'.
  (* the window and its bounds *)
  assert (Fw : Forall (okin M) w) by (apply Forall_lastn, Forall_padded; [apply okin_zero; exact HM|exact Hh]).
  set (old := hd 0%float w).
  assert (Hold : okin M old).
  { unfold old. destruct w as [|a w0]; [congruence|]. cbn. now inversion Fw. }
  destruct Hold as [Fold Hold].
  set (S := Rsum (map FR (lastn p h))) in *.
  assert (HS : Rabs S <= k * M).
  { unfold S, k. eapply Rle_trans; [apply Rsum_abs_le, Forall_lastn; exact Hh|]. rewrite lastn_length, Nat.min_comm. lra. }
  assert (Hk0 : 0 <= k) by (unfold k; apply pos_INR).
  assert (Hkp : k <= INR p) by (unfold k; apply le_INR; lia).
  assert (ESw : S = Rsum (map FR w)).
  { unfold S, w. rewrite <- !lastn_map_, map_padded. symmetry. apply Rsum_lastn_padded. }
  set (S' := Rsum (map FR w')).
  assert (ES' : S' = S - FR old + FR x).
  { unfold S', w'. rewrite <- lastn_map_, map_app. cbn [map].
    rewrite <- (Rsum_lastn_padded p (map FR h ++ [FR x])). rewrite lastn_padded_snoc by exact Hp.
    rewrite Rsum_app. cbn [Rsum]. rewrite ESw. unfold w. rewrite <- lastn_map_, map_padded.
    set (wr := lastn p (padded 0 p (map FR h))).
    assert (Hwr : wr <> []) by (apply lastn_padded_ne; exact Hp).
    rewrite (Rsum_hd_tl wr Hwr). unfold old, w. rewrite <- (hd_map FR), FR_zero. rewrite <- lastn_map_, map_padded. fold wr. lra. }
  pose proof u_pos as Hu0. pose proof u_le as Hu1. pose proof eta_pos as He0. pose proof eta_le as He1.
  set (e := FR (sma_sum s) - S) in *.
  (* first operation: sum - old *)
  assert (B1 : Rabs (FR (sma_sum s) - FR old) <= (k + 1) * M + E).
  { replace (FR (sma_sum s) - FR old) with (S + e - FR old) by (unfold e; lra).
    eapply Rle_trans; [apply Rabs_triang|]. eapply Rle_trans; [apply Rplus_le_compat_r, Rabs_triang|].
    rewrite Rabs_Ropp. lra. }
  assert (HkM : k * M <= INR p * M) by (apply Rmult_le_compat_r; assumption).
  assert (HpM : 0 <= INR p * M) by (apply Rmult_le_pos; [apply pos_INR|assumption]).
  assert (HkM0 : 0 <= k * M) by (apply Rmult_le_pos; assumption).
  destruct (fsub_err (sma_sum s) old Fsum Fold) as (F1 & e1 & n1 & He1' & Hn1 & R1); [lra|].
  set (t1 := (sma_sum s - old)%float) in *.
  set (K1 := (k + 1) * M) in *.
  assert (HK1 : 0 <= K1) by (unfold K1; apply Rmult_le_pos; lra).
  assert (EK1 : K1 = k * M + M) by (unfold K1; ring).
  set (A := u * K1 + eta).
  assert (HA : 0 <= A) by (unfold A; apply Rplus_le_le_0_compat; [apply Rmult_le_pos|]; lra).
  assert (EE' : E' = E * (1 + u) * (1 + u) + 3 * A) by (unfold E', A, K1; ring).
  assert (HUU : (1 + u) * (1 + u) <= 2) by nra.
  assert (HEU : E * (1 + u) * (1 + u) <= 2 * E) by (rewrite Rmult_assoc; rewrite (Rmult_comm 2 E); apply Rmult_le_compat_l; assumption).
  assert (HEu : E * u <= E * / 1000) by (apply Rmult_le_compat_l; assumption).
  assert (HuK : u * K1 <= K1 * / 1000) by (rewrite (Rmult_comm u K1); apply Rmult_le_compat_l; assumption).
  assert (HAb0 : A <= K1 * / 1000 + / 1000) by (unfold A; lra).
  assert (EA : A = u * K1 + eta) by reflexivity.
  assert (HAu : A * u <= A * / 1000) by (apply Rmult_le_compat_l; assumption).
  assert (HEuu : E * (1 + u) * u <= E * (1 + u) * / 1000) by (apply Rmult_le_compat_l; [apply Rmult_le_pos; lra|assumption]).
  clearbody A.
  assert (D1 : Rabs (FR t1 - (S - FR old)) <= E * (1 + u) + A).
  { rewrite R1. replace ((FR (sma_sum s) - FR old) * (1 + e1) + n1 - (S - FR old))
      with (e + (FR (sma_sum s) - FR old) * e1 + n1) by (unfold e; lra).
    eapply Rle_trans; [apply Rabs_triang|]. eapply Rle_trans; [apply Rplus_le_compat_r, Rabs_triang|].
    rewrite Rabs_mult.
    assert (Rabs (FR (sma_sum s) - FR old) * Rabs e1 <= (K1 + E) * u).
    { apply Rmult_le_compat; try apply Rabs_pos; assumption. }
    fold e in Hsum. lra. }
  (* second operation: + x *)
  assert (HS'b : Rabs (S - FR old) <= K1).
  { eapply Rle_trans; [apply Rabs_triang|]. rewrite Rabs_Ropp. lra. }
  assert (B2 : Rabs (FR t1 + FR x) <= K1 + M + E * (1 + u) + A).
  { replace (FR t1 + FR x) with ((FR t1 - (S - FR old)) + (S - FR old) + FR x) by lra.
    eapply Rle_trans; [apply Rabs_triang|]. eapply Rle_trans; [apply Rplus_le_compat_r, Rabs_triang|]. lra. }
  assert (HAb : A <= K1 + 1) by lra.
  destruct (fadd_err t1 x F1 Fx) as (F2 & e2 & n2 & He2' & Hn2 & R2); [lra|].
  set (t2 := (t1 + x)%float) in *.
  assert (HS'k : Rabs S' <= K1).
  { unfold S', w'. eapply Rle_trans; [apply Rsum_abs_le, Forall_lastn, Forall_app; split; [exact Hh|constructor; [split; assumption|constructor]]|].
    apply Rmult_le_compat_r; [exact HM|]. rewrite lastn_length, app_length. cbn [length]. unfold k.
    rewrite <- S_INR. apply le_INR. lia. }
  assert (D2 : Rabs (FR t2 - S') <= E').
  { rewrite R2, ES'. replace ((FR t1 + FR x) * (1 + e2) + n2 - (S - FR old + FR x))
      with ((FR t1 - (S - FR old)) + (FR t1 + FR x) * e2 + n2) by lra.
    eapply Rle_trans; [apply Rabs_triang|]. eapply Rle_trans; [apply Rplus_le_compat_r, Rabs_triang|].
    rewrite Rabs_mult.
    assert (B2' : Rabs (FR t1 + FR x) <= K1 + (E * (1 + u) + A)).
    { replace (FR t1 + FR x) with ((FR t1 - (S - FR old)) + S') by (rewrite ES'; lra).
      eapply Rle_trans; [apply Rabs_triang|]. lra. }
    assert (Rabs (FR t1 + FR x) * Rabs e2 <= (K1 + (E * (1 + u) + A)) * u).
    { apply Rmult_le_compat; try apply Rabs_pos; assumption. }
    rewrite EE'. lra. }
  (* division by the count *)
  set (c' := N.of_nat (Nat.min (length (h ++ [x])) p)).
  assert (Hc'pos : (1 <= Nat.min (length (h ++ [x])) p)%nat) by (rewrite app_length; cbn; lia).
  assert (Hlen : length w' = Nat.min (length (h ++ [x])) p) by (unfold w'; rewrite lastn_length; lia).
  destruct (f_ofN_exact c') as [Fc Rc]; [unfold c', p in *; lia|].
  assert (Rc' : FR (f_ofN c') = INR (length w')).
  { rewrite Rc, Hlen. unfold c'. rewrite nat_N_Z. symmetry. apply INR_IZR_INZ. }
  set (kk := INR (length w')) in *.
  assert (Hkk : 1 <= kk) by (unfold kk; rewrite Hlen; change 1 with (INR 1); apply le_INR; exact Hc'pos).
  assert (Bt2 : Rabs (FR t2) <= K1 + E').
  { replace (FR t2) with ((FR t2 - S') + S') by lra. eapply Rle_trans; [apply Rabs_triang|]. lra. }
  assert (HE'b : E' <= 2 * E + K1 + 1) by (rewrite EE'; lra).
  assert (Bq : Rabs (FR t2 / FR (f_ofN c')) <= K1 + E').
  { rewrite Rc'. unfold Rdiv. rewrite Rabs_mult, (Rabs_pos_eq (/ kk)) by (apply Rlt_le, Rinv_0_lt_compat; lra).
    apply Rle_trans with (Rabs (FR t2) * 1); [|lra]. apply Rmult_le_compat_l; [apply Rabs_pos|].
    rewrite <- Rinv_1. apply Rinv_le_contravar; lra. }
  destruct (fdiv_err t2 (f_ofN c') F2) as (F3 & e3 & n3 & He3' & Hn3 & R3); [rewrite Rc'; lra|lra|].
  cbn [div ofN O]. fold t1. fold t2. fold c'.
  exists (mkSma (sma_period s) (if (sma_index s + 1 <? sma_period s)%N then (sma_index s + 1)%N else 0%N) c' t2
                (set_nth (sma_deque s) (N.to_nat (sma_index s)) x)), (t2 / f_ofN c')%float.
  split; [reflexivity|]. split; [|split; [reflexivity|split; [exact F3|]]].
  - unfold fsma_inv. cbn [sma_period sma_index sma_count sma_sum sma_deque]. fold p.
    split; [unfold wf_sma, ring_wf; cbn; pose proof (advance_lt _ _ H3); repeat split; unfold c', p in *; lia|].
    split; [rewrite E5, lastn_padded_snoc by exact Hp; reflexivity|].
    split; [reflexivity|]. split; [exact F2|exact D2].
  - rewrite R3, Rc'. unfold mean. rewrite map_length. fold kk. fold S'.
    replace (FR t2 / kk * (1 + e3) + n3 - S' / kk) with ((FR t2 - S') / kk * (1 + e3) + S' / kk * e3 + n3) by (field; lra).
    eapply Rle_trans; [apply Rabs_triang|]. eapply Rle_trans; [apply Rplus_le_compat_r, Rabs_triang|].
    rewrite !Rabs_mult. unfold Rdiv. rewrite !Rabs_mult, (Rabs_pos_eq (/ kk)) by (apply Rlt_le, Rinv_0_lt_compat; lra).
    assert (Hik : 0 < / kk) by (apply Rinv_0_lt_compat; lra).
    assert (P1 : Rabs (FR t2 - S') * / kk * Rabs (1 + e3) <= E' * / kk * (1 + u)).
    { apply Rmult_le_compat; [apply Rmult_le_pos; [apply Rabs_pos|lra]|apply Rabs_pos| |].
      - apply Rmult_le_compat_r; [lra|exact D2].
      - eapply Rle_trans; [apply Rabs_triang|]. rewrite Rabs_R1. lra. }
    assert (HS'kk : Rabs S' * / kk <= M).
    { assert (Rabs S' <= kk * M).
      { unfold S', kk. rewrite <- (map_length FR w'). rewrite map_length. apply Rsum_abs_le. unfold w'.
        apply Forall_lastn, Forall_app; split; [exact Hh|constructor; [split; assumption|constructor]]. }
      apply Rle_trans with (kk * M * / kk); [apply Rmult_le_compat_r; lra|]. field_simplify; lra. }
    assert (P2 : Rabs S' * / kk * Rabs e3 <= M * u).
    { apply Rmult_le_compat; try assumption; [apply Rmult_le_pos; [apply Rabs_pos|lra]|apply Rabs_pos]. }
    lra.
Qed.

(* ---- the whole stream ---- *)
From TA Require Import Proofs.XSma Proofs.Wiring.
Open Scope R_scope.

Definition Abar (p : nat) (M : R) (t : nat) : R := u * (INR (Nat.min t p) + 1) * M + eta.
Definition out_bound (M : R) (T : nat) : R := (9 * INR T + 1) * u * M + (5 * INR T + 1) * eta.

Lemma Abar_mono p M t : 0 <= M -> Abar p M t <= Abar p M (S t).
Proof.
  intros HM. unfold Abar. pose proof u_pos.
  assert (INR (Nat.min t p) <= INR (Nat.min (S t) p)) by (apply le_INR; lia).
  apply Rplus_le_compat_r. apply Rmult_le_compat_r; [exact HM|]. apply Rmult_le_compat_l; lra.
Qed.
Lemma Abar_pos p M t : 0 <= M -> 0 <= Abar p M t.
Proof.
  intros HM. unfold Abar. pose proof u_pos. pose proof eta_pos. pose proof (pos_INR (Nat.min t p)).
  apply Rplus_le_le_0_compat; [|lra]. apply Rmult_le_pos; [apply Rmult_le_pos; lra|exact HM].
Qed.

(* the error recurrence stays linear while t*u <= 1/16 (t <= 2^49) *)
Lemma err_step p M t E : 0 <= M -> 0 <= E -> E <= 4 * INR t * Abar p M t -> INR (S t) * u <= / 16 ->
  E * (1 + u) * (1 + u) + 3 * Abar p M t <= 4 * INR (S t) * Abar p M (S t).
Proof.
  intros HM HE Hle Htu. pose proof u_pos as Hu. pose proof (Abar_mono p M t HM) as Hm. pose proof (Abar_pos p M t HM) as Ha.
  rewrite S_INR in *. pose proof (pos_INR t) as Ht.
  set (a := Abar p M t) in *. set (a' := Abar p M (S t)) in *. set (T := INR t) in *.
  assert (H1 : (1 + u) * (1 + u) <= 1 + 3 * u) by (pose proof u_le; nra).
  assert (H2 : E * (1 + u) * (1 + u) <= E * (1 + 3 * u)) by (rewrite Rmult_assoc; apply Rmult_le_compat_l; assumption).
  assert (H3 : E * (1 + 3 * u) <= 4 * T * a * (1 + 3 * u)) by (apply Rmult_le_compat_r; lra).
  assert (H4 : T * u <= / 16) by nra.
  assert (H5 : 4 * T * a * (1 + 3 * u) = 4 * T * a + 12 * (T * u) * a) by ring.
  assert (H6 : 12 * (T * u) * a <= 12 * / 16 * a) by (apply Rmult_le_compat_r; lra).
  assert (H7 : 4 * (T + 1) * a <= 4 * (T + 1) * a') by (apply Rmult_le_compat_l; lra).
  lra.
Qed.

Lemma fsma_run p M : 0 <= M -> 3 * ((INR p + 2) * M + 1) <= BIG ->
  forall xs (s : @Sma float) h E, N.to_nat (sma_period s) = p -> (sma_period s < 9007199254740992)%N ->
  fsma_inv s h E -> 0 <= E -> E <= 4 * INR (length h) * Abar p M (length h) ->
  Forall (okin M) h -> Forall (okin M) xs -> INR (length h + length xs) * u <= / 16 ->
  Forall2 (fun o hh => finF o /\ Rabs (FR o - mean (map FR (lastn p hh))) <= out_bound M (length hh))
          (sma_outs' O s xs) (prefixes_from h xs).
Proof.
  intros HM Hbig. induction xs as [|x xs IH]; intros s h E Hp Hp53 Hinv HE HEb Hh Hxs Htu; [constructor|].
  pose proof (Forall_inv Hxs) as Hx. pose proof (Forall_inv_tail Hxs) as Hxs'.
  pose proof u_pos as Hu0. pose proof u_le as Hu1. pose proof eta_pos as He0.
  set (t := length h) in *.
  assert (Hp1 : (1 <= p)%nat) by (destruct Hinv as ((W1 & _) & _); lia).
  assert (Htu' : INR (S t) * u <= / 16).
  { eapply Rle_trans; [|exact Htu]. apply Rmult_le_compat_r; [lra|]. apply le_INR. cbn [length]. lia. }
  assert (HEsmall : E <= (INR p + 1) * M / 4 + / 4).
  { eapply Rle_trans; [exact HEb|]. unfold Abar.
    assert (Hk : INR (Nat.min t p) <= INR p) by (apply le_INR; lia).
    assert (Ht4 : 4 * INR t * u <= / 4). { rewrite S_INR in Htu'. pose proof (pos_INR t). nra. }
    assert (Hm : u * (INR (Nat.min t p) + 1) * M <= u * ((INR p + 1) * M)).
    { rewrite Rmult_assoc. apply Rmult_le_compat_l; [lra|]. apply Rmult_le_compat_r; lra. }
    assert (He : 4 * INR t * eta <= / 4).
    { apply Rle_trans with (4 * INR t * u); [|exact Ht4]. apply Rmult_le_compat_l; [pose proof (pos_INR t); lra|].
      unfold eta, u. apply Rmult_le_compat_l; [lra|]. apply bpow_le. cbn. lia. }
    assert (HpM : 0 <= (INR p + 1) * M) by (apply Rmult_le_pos; [pose proof (pos_INR p); lra|exact HM]).
    assert (Hx4 : 4 * INR t * (u * ((INR p + 1) * M)) <= / 4 * ((INR p + 1) * M)).
    { rewrite <- Rmult_assoc. apply Rmult_le_compat_r; assumption. }
    assert (4 * INR t * (u * (INR (Nat.min t p) + 1) * M) <= 4 * INR t * (u * ((INR p + 1) * M))).
    { apply Rmult_le_compat_l; [pose proof (pos_INR t); lra|exact Hm]. }
    lra. }
  destruct (fsma_step s h x M E HM HE Hinv Hh Hx Hp53) as (s' & o & En & Hinv' & Hp' & Fo & Ho).
  { rewrite Hp. assert (0 <= (INR p + 1) * M) by (apply Rmult_le_pos; [pose proof (pos_INR p); lra|exact HM]). lra. }
  rewrite Hp in *. fold t in Hinv', Ho.
  change (sma_outs' O s (x :: xs)) with (res_outs (sma_next O) s (x :: xs)). cbn [res_outs]. rewrite En.
  cbn [prefixes_from]. set (E' := E * (1 + u) * (1 + u) + 3 * (u * (INR (Nat.min t p) + 1) * M + eta)) in *.
  assert (HE'b : E' <= 4 * INR (S t) * Abar p M (S t)) by (apply (err_step p M t E HM HE HEb Htu')).
  assert (HE'0 : 0 <= E').
  { unfold E'. pose proof (Abar_pos p M t HM) as Ha. unfold Abar in Ha.
    assert (0 <= E * (1 + u) * (1 + u)) by (apply Rmult_le_pos; [apply Rmult_le_pos|]; lra). lra. }
  assert (Lh : length (h ++ [x]) = S t) by (rewrite app_length; cbn; unfold t; lia).
  constructor.
  - split; [exact Fo|]. eapply Rle_trans; [exact Ho|].
    (* E'/k' (1+u) + uM + eta <= out_bound M (S t) *)
    rewrite lastn_length, Lh. set (k' := Nat.min p (S t)).
    assert (Hk' : 1 <= INR k') by (change 1 with (INR 1); apply le_INR; unfold k'; lia).
    assert (Eab : Abar p M (S t) = u * (INR k' + 1) * M + eta) by (unfold Abar, k'; rewrite Nat.min_comm; reflexivity).
    assert (Hdiv : E' / INR k' <= 4 * INR (S t) * (2 * u * M + eta)).
    { apply Rle_trans with (4 * INR (S t) * Abar p M (S t) / INR k'); [apply Rmult_le_compat_r; [apply Rlt_le, Rinv_0_lt_compat; lra|exact HE'b]|].
      rewrite Eab. unfold Rdiv. rewrite Rmult_assoc. apply Rmult_le_compat_l; [pose proof (pos_INR (S t)); lra|].
      assert (Hi : / INR k' <= 1) by (rewrite <- Rinv_1; apply Rinv_le_contravar; lra).
      assert (Hi0 : 0 < / INR k') by (apply Rinv_0_lt_compat; lra).
      replace ((u * (INR k' + 1) * M + eta) * / INR k') with (u * M * (1 + / INR k') + eta * / INR k') by (field; lra).
      assert (u * M * (1 + / INR k') <= u * M * 2) by (apply Rmult_le_compat_l; [apply Rmult_le_pos; lra|lra]).
      assert (eta * / INR k' <= eta * 1) by (apply Rmult_le_compat_l; lra).
      lra. }
    unfold out_bound. set (T := INR (S t)) in *.
    assert (HT : 1 <= T) by (unfold T; change 1 with (INR 1); apply le_INR; lia).
    assert (HuM : 0 <= u * M) by (apply Rmult_le_pos; lra).
    assert (Hq : E' / INR k' * (1 + u) <= 4 * T * (2 * u * M + eta) * (9 / 8)).
    { apply Rmult_le_compat; [|lra|exact Hdiv|lra].
      apply Rmult_le_pos; [exact HE'0|apply Rlt_le, Rinv_0_lt_compat; lra]. }
    assert (HTuM : 0 <= T * (u * M)) by (apply Rmult_le_pos; lra).
    assert (HTe : 0 <= T * eta) by (apply Rmult_le_pos; lra).
    replace (4 * T * (2 * u * M + eta) * (9 / 8)) with (9 * (T * (u * M)) + 9 / 2 * (T * eta)) in Hq by (unfold T; field).
    replace ((9 * T + 1) * u * M + (5 * T + 1) * eta) with (9 * (T * (u * M)) + u * M + 5 * (T * eta) + eta) by ring.
    lra.
  - apply (IH s' (h ++ [x]) E'); try assumption.
    + rewrite Hp'. exact Hp.
    + rewrite Hp'. exact Hp53.
    + rewrite Lh. exact HE'b.
    + apply Forall_app. split; [exact Hh|constructor; [exact Hx|constructor]].
    + rewrite Lh. eapply Rle_trans; [|exact Htu]. apply Rmult_le_compat_r; [lra|]. apply le_INR. cbn [length]. unfold t. lia.
Qed.

Theorem sma_float_error : forall p s xs M, sma_new O p = Ok s -> (p < 9007199254740992)%N -> 0 <= M ->
  Forall (okin M) xs -> 3 * ((INR (N.to_nat p) + 2) * M + 1) <= BIG -> INR (length xs) * u <= / 16 ->
  Forall2 (fun o hh => finF o /\ Rabs (FR o - mean (map FR (lastn (N.to_nat p) hh))) <= out_bound M (length hh))
          (sma_outs' O s xs) (prefixes_from [] xs).
Proof.
  intros p s xs M H Hp HM Hxs Hbig Ht. pose proof (sma_new_inv O p s H) as (_ & _ & _ & Pe).
  apply (fsma_run (N.to_nat p) M HM Hbig xs s [] 0); try assumption.
  - now rewrite Pe.
  - now rewrite Pe.
  - apply (fsma_inv_new p s H).
  - lra.
  - cbn. lra.
  - constructor.
Qed.

(* the bound is inside the tolerance of the properties: tau(t) = 1e-12 + 1e-15 * t^1.5, times the magnitude bound *)
Lemma out_bound_tau M T : (1 <= T)%nat -> bpow radix2 (-960) <= M ->
  out_bound M T <= (1 / 10 ^ 12 + 1 / 10 ^ 15 * (INR T * R_sqrt.sqrt (INR T))) * M.
Proof.
  intros HT HMl. unfold out_bound. set (t := INR T).
  assert (Ht : 1 <= t) by (unfold t; change 1 with (INR 1); apply le_INR; exact HT).
  assert (HM0 : 0 < M) by (eapply Rlt_le_trans; [apply bpow_gt_0|exact HMl]).
  assert (Hu : u <= 12 / 10 ^ 17).
  { unfold u. cbn. lra. }
  assert (He : eta <= / 10 ^ 30 * M).
  { unfold eta. change (3 - emax - prec)%Z with (-114 + -960)%Z. rewrite bpow_plus.
    apply Rle_trans with (/ 2 * (bpow radix2 (-114) * M)); [apply Rmult_le_compat_l; [lra|]; apply Rmult_le_compat_l; [apply bpow_ge_0|exact HMl]|].
    assert (Hc : / 2 * bpow radix2 (-114) <= / 10 ^ 30) by (cbn; lra).
    rewrite <- Rmult_assoc. apply Rmult_le_compat_r; lra. }
  pose proof u_pos as Hu0. pose proof eta_pos as He0.
  assert (HuM : (9 * t + 1) * u * M <= (9 * t + 1) * (12 / 10 ^ 17) * M).
  { apply Rmult_le_compat_r; [lra|]. apply Rmult_le_compat_l; lra. }
  assert (HeM : (5 * t + 1) * eta <= (5 * t + 1) * (/ 10 ^ 30 * M)) by (apply Rmult_le_compat_l; lra).
  destruct (Rle_dec t 100) as [Hs|Hl].
  - (* small t: the constant term suffices *)
    assert (0 <= t * R_sqrt.sqrt t) by (apply Rmult_le_pos; [lra|apply sqrt_pos]).
    assert (Hc : (9 * t + 1) * (12 / 10 ^ 17) + (5 * t + 1) * / 10 ^ 30 <= 1 / 10 ^ 12) by lra.
    assert (Hc2 : ((9 * t + 1) * (12 / 10 ^ 17) + (5 * t + 1) * / 10 ^ 30) * M <= (1 / 10 ^ 12) * M) by (apply Rmult_le_compat_r; lra).
    assert (0 <= 1 / 10 ^ 15 * (t * R_sqrt.sqrt t) * M) by (apply Rmult_le_pos; [apply Rmult_le_pos; lra|lra]).
    lra.
  - (* large t: R_sqrt.sqrt t >= 10 *)
    assert (Hsq : 10 <= R_sqrt.sqrt t).
    { rewrite <- (sqrt_square 10) by lra. apply sqrt_le_1_alt. lra. }
    assert (Hts : 10 * t <= t * R_sqrt.sqrt t) by (rewrite (Rmult_comm 10 t); apply Rmult_le_compat_l; lra).
    assert (Hc : (9 * t + 1) * (12 / 10 ^ 17) + (5 * t + 1) * / 10 ^ 30 <= 1 / 10 ^ 15 * (10 * t)) by lra.
    assert (Hc2 : ((9 * t + 1) * (12 / 10 ^ 17) + (5 * t + 1) * / 10 ^ 30) * M <= (1 / 10 ^ 15 * (t * R_sqrt.sqrt t)) * M).
    { apply Rmult_le_compat_r; [lra|]. lra. }
    assert (0 <= 1 / 10 ^ 12 * M) by (apply Rmult_le_pos; lra).
    lra.
Qed.

Lemma prefixes_len {A} (xs h : list A) : Forall (fun hh => (1 <= length hh)%nat) (prefixes_from h xs).
Proof.
  revert h; induction xs as [|x xs IH]; intros h; cbn [prefixes_from]; constructor; [rewrite app_length; cbn; lia|apply IH].
Qed.

Lemma Forall2_weaken {A B} (P Q : A -> B -> Prop) (R0 : B -> Prop) l1 l2 :
  (forall a b, R0 b -> P a b -> Q a b) -> Forall R0 l2 -> Forall2 P l1 l2 -> Forall2 Q l1 l2.
Proof.
  intros H HR HP. induction HP as [|a b l1 l2 Hab _ IH]; constructor; inversion HR; subst; auto.
Qed.

(* binary64 SimpleMovingAverage stays within tau(t) * M of the exact mean of the last min(t,n) inputs, for every period
   below 2^53, every stream of finite inputs bounded by M (2^-960 <= M, 3((n+2)M+1) <= 2^1000) and up to 2^49 inputs *)
Theorem sma_float_within_tau : forall p s xs M, sma_new O p = Ok s -> (p < 9007199254740992)%N ->
  bpow radix2 (-960) <= M -> Forall (okin M) xs -> 3 * ((INR (N.to_nat p) + 2) * M + 1) <= BIG ->
  INR (length xs) * u <= / 16 ->
  Forall2 (fun o hh => finF o /\
             Rabs (FR o - mean (map FR (lastn (N.to_nat p) hh))) <=
             (1 / 10 ^ 12 + 1 / 10 ^ 15 * (INR (length hh) * R_sqrt.sqrt (INR (length hh)))) * M)
          (sma_outs' O s xs) (prefixes_from [] xs).
Proof.
  intros p s xs M H Hp HMl Hxs Hbig Ht.
  assert (HM : 0 <= M) by (eapply Rle_trans; [apply bpow_ge_0|exact HMl]).
  eapply Forall2_weaken; [|apply prefixes_len|apply (sma_float_error p s xs M H Hp HM Hxs Hbig Ht)].
  intros o hh Hl [Fo Ho]. split; [exact Fo|]. eapply Rle_trans; [exact Ho|]. apply out_bound_tau; assumption.
Qed.

(* non-vacuity: three ordinary prices, period 2 *)
Example sma_float_example :
  let xs := [1.5%float; 2.25%float; 100%float] in
  Forall (okin 100) xs /\ 3 * ((INR 2 + 2) * 100 + 1) <= BIG /\ INR (length xs) * u <= / 16 /\ bpow radix2 (-960) <= 100.
Proof.
  cbn zeta. split; [|split; [|split]].
  - repeat (apply Forall_cons; [split; [reflexivity|unfold FR; cbn; unfold F2R; cbn; rewrite Rabs_pos_eq; lra]|]). apply Forall_nil.
  - unfold BIG. apply Rle_trans with (bpow radix2 11); [cbn; lra|apply bpow_le; lia].
  - pose proof u_le. cbn. lra.
  - apply Rle_trans with (bpow radix2 0); [apply bpow_le; lia|cbn; lra].
Qed.

(* ---- forgetting on binary64 (C17): two histories with the same last n inputs give outputs that differ by at most the sum
        of the two forward error bounds ---- *)
Lemma Forall2_last {A B} (P : A -> B -> Prop) l1 l2 d1 d2 : Forall2 P l1 l2 -> l1 <> [] -> P (last l1 d1) (last l2 d2).
Proof.
  induction 1 as [|a b l1 l2 Hab H IH]; intros Hn; [congruence|].
  destruct l1 as [|a' l1]; inversion H; subst; [exact Hab|]. apply IH. discriminate.
Qed.

Lemma last_prefixes' {A} (h xs : list A) : xs <> [] -> last (prefixes_from h xs) [] = h ++ xs.
Proof.
  revert h; induction xs as [|x xs IH]; intros h Hn; [congruence|]. cbn [prefixes_from].
  destruct xs as [|y ys]; [reflexivity|].
  change (last ((h ++ [x]) :: prefixes_from (h ++ [x]) (y :: ys)) []) with (last (prefixes_from (h ++ [x]) (y :: ys)) []).
  rewrite IH by discriminate. rewrite <- app_assoc. reflexivity.
Qed.

Theorem sma_float_forgets : forall p s xs1 xs2 M, sma_new O p = Ok s -> (p < 9007199254740992)%N -> 0 <= M ->
  Forall (okin M) xs1 -> Forall (okin M) xs2 -> 3 * ((INR (N.to_nat p) + 2) * M + 1) <= BIG ->
  INR (length xs1) * u <= / 16 -> INR (length xs2) * u <= / 16 -> xs1 <> [] -> xs2 <> [] ->
  lastn (N.to_nat p) xs1 = lastn (N.to_nat p) xs2 ->
  Rabs (FR (last (sma_outs' O s xs1) 0%float) - FR (last (sma_outs' O s xs2) 0%float)) <=
  out_bound M (length xs1) + out_bound M (length xs2).
Proof.
  intros p s xs1 xs2 M H Hp HM F1 F2 Hbig T1 T2 N1 N2 E.
  pose proof (sma_float_error p s xs1 M H Hp HM F1 Hbig T1) as A1.
  pose proof (sma_float_error p s xs2 M H Hp HM F2 Hbig T2) as A2.
  assert (O1 : sma_outs' O s xs1 <> []).
  { intros Z. rewrite Z in A1. inversion A1 as [Q|]; subst. destruct xs1; [congruence|discriminate]. }
  assert (O2 : sma_outs' O s xs2 <> []).
  { intros Z. rewrite Z in A2. inversion A2 as [Q|]; subst. destruct xs2; [congruence|discriminate]. }
  pose proof (Forall2_last _ _ _ 0%float [] A1 O1) as [_ B1]. pose proof (Forall2_last _ _ _ 0%float [] A2 O2) as [_ B2].
  rewrite last_prefixes' in B1, B2 by assumption. cbn [app] in B1, B2. rewrite E in B1.
  set (mu := mean (map FR (lastn (N.to_nat p) xs2))) in *.
  replace (FR (last (sma_outs' O s xs1) 0%float) - FR (last (sma_outs' O s xs2) 0%float))
    with ((FR (last (sma_outs' O s xs1) 0%float) - mu) - (FR (last (sma_outs' O s xs2) 0%float) - mu)) by ring.
  eapply Rle_trans; [apply Rabs_triang|]. rewrite Rabs_Ropp. lra.
Qed.

Lemma out_bound2_tau M T1 T2 : (1 <= T2 <= T1)%nat -> bpow radix2 (-960) <= M ->
  out_bound M T1 + out_bound M T2 <= (1 / 10 ^ 12 + 1 / 10 ^ 15 * (INR T1 * R_sqrt.sqrt (INR T1))) * M.
Proof.
  intros [H2 H12] HMl. unfold out_bound. set (t := INR T1). set (t2 := INR T2).
  assert (Ht2 : 1 <= t2) by (unfold t2; change 1 with (INR 1); apply le_INR; exact H2).
  assert (Ht : t2 <= t) by (unfold t, t2; apply le_INR; exact H12).
  assert (HM0 : 0 < M) by (eapply Rlt_le_trans; [apply bpow_gt_0|exact HMl]).
  assert (Hu : u <= 12 / 10 ^ 17) by (unfold u; cbn; lra).
  assert (He : eta <= / 10 ^ 30 * M).
  { unfold eta. change (3 - emax - prec)%Z with (-114 + -960)%Z. rewrite bpow_plus.
    apply Rle_trans with (/ 2 * (bpow radix2 (-114) * M)); [apply Rmult_le_compat_l; [lra|]; apply Rmult_le_compat_l; [apply bpow_ge_0|exact HMl]|].
    assert (Hc : / 2 * bpow radix2 (-114) <= / 10 ^ 30) by (cbn; lra).
    rewrite <- Rmult_assoc. apply Rmult_le_compat_r; lra. }
  pose proof u_pos as Hu0. pose proof eta_pos as He0.
  assert (A1 : (9 * t + 1) * u * M <= (9 * t + 1) * (12 / 10 ^ 17) * M) by (apply Rmult_le_compat_r; [lra|]; apply Rmult_le_compat_l; lra).
  assert (A2 : (9 * t2 + 1) * u * M <= (9 * t + 1) * (12 / 10 ^ 17) * M).
  { apply Rmult_le_compat_r; [lra|]. apply Rle_trans with ((9 * t + 1) * u); [apply Rmult_le_compat_r; lra|apply Rmult_le_compat_l; lra]. }
  assert (B1 : (5 * t + 1) * eta <= (5 * t + 1) * (/ 10 ^ 30 * M)) by (apply Rmult_le_compat_l; lra).
  assert (B2 : (5 * t2 + 1) * eta <= (5 * t + 1) * (/ 10 ^ 30 * M)).
  { apply Rle_trans with ((5 * t + 1) * eta); [apply Rmult_le_compat_r; lra|apply Rmult_le_compat_l; lra]. }
  assert (Hs0 : 0 <= t * R_sqrt.sqrt t) by (apply Rmult_le_pos; [lra|apply sqrt_pos]).
  destruct (Rle_dec t 400) as [Hs|Hl].
  - assert (Hc : 2 * ((9 * t + 1) * (12 / 10 ^ 17)) + 2 * ((5 * t + 1) * / 10 ^ 30) <= 1 / 10 ^ 12) by lra.
    assert (Hc2 : (2 * ((9 * t + 1) * (12 / 10 ^ 17)) + 2 * ((5 * t + 1) * / 10 ^ 30)) * M <= (1 / 10 ^ 12) * M) by (apply Rmult_le_compat_r; lra).
    assert (0 <= 1 / 10 ^ 15 * (t * R_sqrt.sqrt t) * M) by (apply Rmult_le_pos; [apply Rmult_le_pos; lra|lra]). lra.
  - assert (Hsq : 20 <= R_sqrt.sqrt t) by (rewrite <- (sqrt_square 20) by lra; apply sqrt_le_1_alt; lra).
    assert (Hts : 20 * t <= t * R_sqrt.sqrt t) by (rewrite (Rmult_comm 20 t); apply Rmult_le_compat_l; lra).
    assert (Hc : 2 * ((9 * t + 1) * (12 / 10 ^ 17)) + 2 * ((5 * t + 1) * / 10 ^ 30) <= 1 / 10 ^ 15 * (20 * t)) by lra.
    assert (Hc2 : (2 * ((9 * t + 1) * (12 / 10 ^ 17)) + 2 * ((5 * t + 1) * / 10 ^ 30)) * M <= (1 / 10 ^ 15 * (t * R_sqrt.sqrt t)) * M).
    { apply Rmult_le_compat_r; [lra|]. lra. }
    assert (0 <= 1 / 10 ^ 12 * M) by (apply Rmult_le_pos; lra). lra.
Qed.

(* the full-history output and the output of a fresh instance fed only a suffix that contains the last n inputs agree within
   tau(t) * M, t = length of the full history *)
Theorem sma_float_forgets_tau : forall p s xs1 xs2 M, sma_new O p = Ok s -> (p < 9007199254740992)%N -> bpow radix2 (-960) <= M ->
  Forall (okin M) xs1 -> Forall (okin M) xs2 -> 3 * ((INR (N.to_nat p) + 2) * M + 1) <= BIG ->
  INR (length xs1) * u <= / 16 -> xs2 <> [] -> (length xs2 <= length xs1)%nat ->
  lastn (N.to_nat p) xs1 = lastn (N.to_nat p) xs2 ->
  Rabs (FR (last (sma_outs' O s xs1) 0%float) - FR (last (sma_outs' O s xs2) 0%float)) <=
  (1 / 10 ^ 12 + 1 / 10 ^ 15 * (INR (length xs1) * R_sqrt.sqrt (INR (length xs1)))) * M.
Proof.
  intros p s xs1 xs2 M H Hp HMl F1 F2 Hbig T1 N2 L E.
  assert (HM : 0 <= M) by (eapply Rle_trans; [apply bpow_ge_0|exact HMl]).
  assert (N1 : xs1 <> []) by (destruct xs1; [destruct xs2; [congruence|cbn in L; lia]|discriminate]).
  assert (T2 : INR (length xs2) * u <= / 16).
  { eapply Rle_trans; [|exact T1]. apply Rmult_le_compat_r; [pose proof u_pos; lra|apply le_INR; exact L]. }
  eapply Rle_trans; [apply (sma_float_forgets p s xs1 xs2 M H Hp HM F1 F2 Hbig T1 T2 N1 N2 E)|].
  apply out_bound2_tau; [|exact HMl]. split; [destruct xs2; [congruence|cbn; lia]|exact L].
Qed.
