(* EfficiencyRatio for EVERY number type: after any history the output is |first - x| / volatility computed in that number type by the
   very loop of the code over the last n+1 prices in chronological order (the whole history while fewer than n earlier prices exist).
   Bit-exact for binary64 — so on binary64 the output is a function of the last n+1 inputs alone, NaN and infinities included.
   The exact-carrier theorem of XEr.v is the instance F = XR. *)
From Coq Require Import List Lia NArith.
From TA Require Import Base Model Proofs.Prims Proofs.WF Proofs.Ring Proofs.XBase Proofs.XMad Proofs.Wiring Proofs.GRoc.
Import ListNotations.
Open Scope N_scope.

Section G.
Context {F : Type} (O : Ops F).
Local Notation z := (zero O).

Definition ger_ratio (first x : F) (scan : list F) : F :=
  div O (abs O (sub O first x)) (fst (er_vol_loop O (z, first) scan)).

(* warm-up (fewer than n earlier prices): the path starts at the first price and the loop runs over the whole history;
   afterwards: first = the price n steps back, the loop runs over the n prices after it *)
Definition ger_spec (p : nat) (h : list F) (x : F) : F :=
  if (length h <? p)%nat then ger_ratio (hd z h) x (h ++ [x])
  else let w := lastn (S p) (h ++ [x]) in ger_ratio (hd z w) x (tl w).

Definition ger_inv (s : @Er F) (h : list F) : Prop :=
  let p := N.to_nat (er_period s) in
  wf_er s /\
  rot (N.to_nat (er_index s)) (er_deque s) = lastn p (padded z p h) /\
  er_count s = N.of_nat (Nat.min (length h) p) /\
  ((length h < p)%nat -> er_index s = N.of_nat (length h)).

Lemma ger_inv_new p s : er_new O p = Ok s -> ger_inv s [].
Proof.
  intros H. pose proof (er_new_inv O p s H) as (A & B & W & Pe).
  rewrite er_new_ok in H by assumption. injection H as <-.
  unfold ger_inv. cbn [er_period er_index er_count er_deque].
  split; [exact W|]. split; [rewrite rot_0, lastn_padded_nil; reflexivity|].
  split; [cbn; lia|]. intros _. reflexivity.
Qed.

Lemma ger_loop_app (acc : F * F) (a b : list F) :
  er_vol_loop O (er_vol_loop O acc a) b = er_vol_loop O acc (a ++ b).
Proof. unfold er_vol_loop. rewrite fold_left_app. reflexivity. Qed.

Lemma gskipn_firstn_all {A} (l : list A) i : (i <= length l)%nat -> firstn (length l - i) (skipn i l) = skipn i l.
Proof. intros H. apply firstn_all2. rewrite skipn_length. lia. Qed.

Lemma ger_step s h x : ger_inv s h ->
  exists s', er_next O s x = Ok (s', ger_spec (N.to_nat (er_period s)) h x) /\
             ger_inv s' (h ++ [x]) /\ er_period s' = er_period s.
Proof.
  intros (W & Hrot & Hcnt & Hidx). pose proof W as (H1 & H2 & H3 & H4 & H5 & H6).
  set (p := N.to_nat (er_period s)) in *.
  assert (Hp : (1 <= p)%nat) by (unfold p; lia).
  destruct (ring_step (er_deque s) (er_period s) (er_index s) x z H1 H3 H2 H5) as (E1 & E2 & E3 & E4 & E5).
  unfold er_next.
  set (dq' := set_nth (er_deque s) (N.to_nat (er_index s)) x) in *.
  set (i' := if er_index s + 1 <? er_period s then er_index s + 1 else 0) in *.
  assert (Hrot' : rot (N.to_nat i') dq' = lastn p (padded z p (h ++ [x]))) by (rewrite E5, Hrot, lastn_padded_snoc by exact Hp; reflexivity).
  pose proof (advance_lt _ _ H3) as Hi'. fold i' in Hi'.
  unfold ger_spec. destruct (Nat.ltb_spec (length h) p) as [Hwarm|Hfull].
  - (* warming up: the path starts at slot 0 *)
    assert (Ec : er_period s <=? er_count s = false) by (apply N.leb_gt; rewrite Hcnt; unfold p in *; lia).
    rewrite Ec. rewrite uadd_ok by (unfold ALLOC_MAX, USIZE_MAX in *; lia). cbn [bind].
    rewrite (idx_ok _ 0 z) by (cbn; lia). cbn [bind N.to_nat].
    rewrite E2, E3. cbn [bind]. fold dq' i'.
    assert (Ei : er_index s = N.of_nat (length h)) by (apply Hidx; exact Hwarm).
    assert (Ecount' : er_count s + 1 = N.of_nat (length h + 1)) by (rewrite Hcnt; lia).
    rewrite Ecount'.
    assert (Escan : exists s1 s2, slice dq' i' (N.of_nat (length h + 1)) = Ok s1 /\ slice dq' 0 i' = Ok s2 /\ s1 ++ s2 = h ++ [x]).
    { destruct (Nat.eq_dec (length h + 1) p) as [Eq|Neq].
      - assert (Ei0 : i' = 0) by (unfold i'; rewrite Ei; destruct (N.ltb_spec (N.of_nat (length h) + 1) (er_period s)); unfold p in *; lia).
        rewrite Ei0 in *. rewrite slice_ok by (unfold p in *; lia). rewrite slice_ok by lia.
        do 2 eexists. split; [reflexivity|]. split; [reflexivity|]. cbn [N.to_nat skipn firstn Nat.sub]. rewrite app_nil_r.
        rewrite Nat.sub_0_r. replace (N.to_nat (N.of_nat (length h + 1))) with (length dq') by (rewrite E4; unfold p in *; lia).
        rewrite firstn_all. rewrite rot_0 in Hrot'. rewrite Hrot'.
        rewrite lastn_padded_full by (rewrite app_length; cbn; lia). rewrite lastn_all by (rewrite app_length; cbn; lia). reflexivity.
      - assert (Ei1 : i' = N.of_nat (length h + 1)) by (unfold i'; rewrite Ei; destruct (N.ltb_spec (N.of_nat (length h) + 1) (er_period s)); unfold p in *; lia).
        rewrite Ei1 in *. rewrite slice_ok by (unfold p in *; lia). rewrite slice_ok by (unfold p in *; lia).
        do 2 eexists. split; [reflexivity|]. split; [reflexivity|]. rewrite Nat.sub_diag. cbn [firstn app N.to_nat skipn]. rewrite Nat.sub_0_r.
        rewrite lastn_padded_warm in Hrot' by (rewrite app_length; cbn; lia).
        rewrite Nnat.Nat2N.id in *.
        assert (Hle : (length h + 1 <= length dq')%nat) by (rewrite E4; fold p; lia).
        apply (firstn_of_rot_warm dq' _ _ _ Hle Hrot'). rewrite app_length. cbn. lia. }
    destruct Escan as (s1 & s2 & Es1 & Es2 & Eapp). rewrite Es1, Es2. cbn [bind]. rewrite ger_loop_app, Eapp.
    assert (E0 : nth 0 (er_deque s) z = hd z h).
    { destruct h as [|a h0].
      - rewrite Ei in Hrot. cbn [length N.of_nat N.to_nat] in Hrot. rewrite rot_0 in Hrot. rewrite Hrot.
        rewrite lastn_padded_nil. destruct p; [lia|reflexivity].
      - apply (gnth0_first O (er_deque s) p (N.to_nat (er_index s)) (a :: h0) z Hp H5 ltac:(discriminate) ltac:(lia)
                 ltac:(intros _; rewrite Ei; lia) ltac:(intros; lia) Hrot). }
    rewrite E0.
    destruct (er_vol_loop O (z, hd z h) (h ++ [x])) as [vol lastv] eqn:Ev.
    eexists. split; [unfold ger_ratio; rewrite Ev; reflexivity|].
    split; [|reflexivity]. unfold ger_inv. cbn [er_period er_index er_count er_deque]. fold p.
    split; [unfold wf_er; cbn [er_period er_index er_count er_deque]; fold dq' i'; repeat split; unfold p in *; try lia;
            intros Hlt; unfold i'; rewrite Ei; destruct (N.ltb_spec (N.of_nat (length h) + 1) (er_period s)); lia|].
    split; [exact Hrot'|]. rewrite app_length. cbn [length]. split; [unfold p in *; lia|].
    intros Hlt. unfold i'. rewrite Ei. destruct (N.ltb_spec (N.of_nat (length h) + 1) (er_period s)); unfold p in *; lia.
  - (* the window is full: the oldest price is read at the cursor *)
    assert (Ec : er_period s <=? er_count s = true) by (apply N.leb_le; rewrite Hcnt; unfold p in *; lia).
    rewrite Ec, E1. cbn [bind]. rewrite Hrot. rewrite (ghd_lastn_padded O p h z Hp Hfull).
    rewrite E2, E3. cbn [bind]. fold dq' i'.
    assert (Ecnt : er_count s = er_period s) by (rewrite Hcnt; unfold p in *; lia).
    rewrite Ecnt.
    rewrite (slice_ok dq' i' (er_period s)) by (unfold p in *; lia).
    rewrite (slice_ok dq' 0 i') by (unfold p in *; lia). cbn [bind N.to_nat]. rewrite Nat.sub_0_r. cbn [skipn].
    replace (N.to_nat (er_period s)) with (length dq') by (rewrite E4; reflexivity).
    rewrite gskipn_firstn_all by (rewrite E4; unfold p in *; lia).
    rewrite ger_loop_app. change (skipn (N.to_nat i') dq' ++ firstn (N.to_nat i') dq') with (rot (N.to_nat i') dq').
    rewrite Hrot', lastn_padded_full by (rewrite app_length; cbn; lia).
    set (w := lastn p h) in *. set (w' := lastn p (h ++ [x])).
    assert (Hw : w <> []) by (unfold w; intros E; apply (f_equal (@length F)) in E; rewrite lastn_length in E; cbn in E; lia).
    assert (Epath : lastn (S p) (h ++ [x]) = hd z w :: w').
    { destruct h as [|a h0]; [cbn in Hfull; lia|]. set (hh := a :: h0) in *.
      unfold w, w', lastn. rewrite !app_length. cbn [length].
      replace (length hh + 1 - S p)%nat with (length hh - p)%nat by lia.
      replace (length hh + 1 - p)%nat with (S (length hh - p)) by lia.
      rewrite !skipn_app. replace (length hh - p - length hh)%nat with 0%nat by lia.
      replace (S (length hh - p) - length hh)%nat with 0%nat by lia. cbn [skipn].
      rewrite (skipn_nth_cons hh (length hh - p) z) by lia. cbn [hd app]. reflexivity. }
    rewrite Epath. cbn [hd tl].
    destruct (er_vol_loop O (z, hd z w) w') as [vol lastv] eqn:Ev.
    eexists. split; [unfold ger_ratio; rewrite Ev; reflexivity|].
    split; [|reflexivity]. unfold ger_inv. cbn [er_period er_index er_count er_deque]. fold p.
    split; [unfold wf_er; cbn; fold dq' i'; repeat split; unfold p in *; try lia; intros; lia|].
    split; [exact Hrot'|]. rewrite app_length. cbn [length]. split; [unfold p in *; lia|]. intros; lia.
Qed.

Fixpoint ger_stream (p : nat) (h : list F) (xs : list F) : list F :=
  match xs with [] => [] | x :: xs => ger_spec p h x :: ger_stream p (h ++ [x]) xs end.

Lemma ger_outs_spec : forall xs s h, ger_inv s h ->
  res_outs (er_next O) s xs = ger_stream (N.to_nat (er_period s)) h xs.
Proof.
  induction xs as [|x xs IH]; intros s h Hinv; cbn [res_outs ger_stream]; [reflexivity|].
  destruct (ger_step s h x Hinv) as (s' & E & Hinv' & Hp). rewrite E. f_equal.
  rewrite (IH s' (h ++ [x]) Hinv'), Hp. reflexivity.
Qed.

Theorem ger_refines : forall p s xs, er_new O p = Ok s -> res_outs (er_next O) s xs = ger_stream (N.to_nat p) [] xs.
Proof.
  intros p s xs H. pose proof (er_new_inv O p s H) as (_ & _ & _ & Pe).
  rewrite (ger_outs_spec xs s [] (ger_inv_new p s H)), Pe. reflexivity.
Qed.

(* once n earlier prices exist, the output depends on the last n+1 prices only — in every number type, bit for bit *)
Theorem ger_spec_forgets : forall p h1 h2 x1 x2, (p <= length h1)%nat -> (p <= length h2)%nat ->
  lastn (S p) (h1 ++ [x1]) = lastn (S p) (h2 ++ [x2]) -> ger_spec p h1 x1 = ger_spec p h2 x2.
Proof.
  intros p h1 h2 x1 x2 L1 L2 E. unfold ger_spec.
  destruct (Nat.ltb_spec (length h1) p); [lia|]. destruct (Nat.ltb_spec (length h2) p); [lia|].
  assert (Ex : x1 = x2).
  { assert (G : forall (h : list F) x, last (lastn (S p) (h ++ [x])) z = x).
    { intros h x. unfold lastn. rewrite app_length. cbn [length]. replace (length h + 1 - S p)%nat with (length h - p)%nat by lia.
      rewrite skipn_app. replace (length h - p - length h)%nat with 0%nat by lia. cbn [skipn]. apply last_last. }
    rewrite <- (G h1 x1), <- (G h2 x2), E. reflexivity. }
  rewrite E, Ex. reflexivity.
Qed.
End G.

(* the last output of a stream is the specification at the last input *)
Section Last.
Context {F : Type} (O : Ops F).
Lemma ger_stream_last : forall xs p h x d, last (ger_stream O p h (xs ++ [x])) d = ger_spec O p (h ++ xs) x.
Proof.
  induction xs as [|y xs IH]; intros p h x d; cbn [app ger_stream].
  - rewrite app_nil_r. reflexivity.
  - specialize (IH p (h ++ [y]) x d). rewrite <- app_assoc in IH. cbn [app] in IH. rewrite <- IH.
    destruct (ger_stream O p (h ++ [y]) (xs ++ [x])) eqn:E; [destruct xs; discriminate|reflexivity].
Qed.

(* full history versus any other history (e.g. a fresh instance fed only a suffix) sharing the last n+1 inputs, both with at least
   n+1 inputs: the last outputs are identical, in every number type *)
Theorem ger_forgets : forall p s (h1 h2 : list F) x1 x2 d, er_new O p = Ok s ->
  (N.to_nat p <= length h1)%nat -> (N.to_nat p <= length h2)%nat ->
  lastn (S (N.to_nat p)) (h1 ++ [x1]) = lastn (S (N.to_nat p)) (h2 ++ [x2]) ->
  last (res_outs (er_next O) s (h1 ++ [x1])) d = last (res_outs (er_next O) s (h2 ++ [x2])) d.
Proof.
  intros p s h1 h2 x1 x2 d H L1 L2 E. rewrite !(ger_refines O p s _ H), !ger_stream_last. cbn [app].
  apply ger_spec_forgets; assumption.
Qed.
End Last.

(* the same for RateOfChange (GRoc.v) *)
Section RocLast.
Context {F : Type} (O : Ops F).
Lemma groc_stream_last : forall xs p h x d, last (groc_stream O p h (xs ++ [x])) d = groc_val O (groc_ref p (h ++ xs) x) x.
Proof.
  induction xs as [|y xs IH]; intros p h x d; cbn [app groc_stream].
  - rewrite app_nil_r. reflexivity.
  - specialize (IH p (h ++ [y]) x d). rewrite <- app_assoc in IH. cbn [app] in IH. rewrite <- IH.
    destruct (groc_stream O p (h ++ [y]) (xs ++ [x])) eqn:E; [destruct xs; discriminate|reflexivity].
Qed.

Lemma lastn_S_snoc' (p : nat) (h : list F) x : (p <= length h)%nat -> lastn (S p) (h ++ [x]) = lastn p h ++ [x].
Proof.
  intros H. unfold lastn. rewrite app_length. cbn [length]. replace (length h + 1 - S p)%nat with (length h - p)%nat by lia.
  rewrite skipn_app. replace (length h - p - length h)%nat with 0%nat by lia. reflexivity.
Qed.

Theorem groc_forgets : forall p s (h1 h2 : list F) x1 x2 d, roc_new O p = Ok s ->
  (N.to_nat p <= length h1)%nat -> (N.to_nat p <= length h2)%nat ->
  lastn (S (N.to_nat p)) (h1 ++ [x1]) = lastn (S (N.to_nat p)) (h2 ++ [x2]) ->
  last (res_outs (roc_next O) s (h1 ++ [x1])) d = last (res_outs (roc_next O) s (h2 ++ [x2])) d.
Proof.
  intros p s h1 h2 x1 x2 d H L1 L2 E. rewrite !(groc_refines O p s _ H), !groc_stream_last. cbn [app].
  rewrite !lastn_S_snoc' in E by assumption. apply app_inj_tail in E as [E1 E2]. unfold groc_ref. rewrite E1, E2. reflexivity.
Qed.
End RocLast.
