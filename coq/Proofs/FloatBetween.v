(* Averages on binary64 stay between the extremes of what they average, up to their proved rounding error: SMA and WMA within the
   [min, max] of the window, EMA within the [min, max] of the history (corollaries of the forward-error theorems and of convexity). *)
From Coq Require Import Reals Lra Lia ZArith List Floats.
From Flocq Require Import Core.
From TA Require Import Base Model FloatInst Proofs.Prims Proofs.WF Proofs.Ring Proofs.XBase Proofs.XSma Proofs.XWma Proofs.XCor Proofs.XEma Proofs.FloatErr Proofs.FloatSma Proofs.FloatEma Proofs.FloatAtr Proofs.FloatMacd Proofs.FloatSdMean Proofs.FloatWma Proofs.Wiring.
Import ListNotations.
Open Scope R_scope.
Local Notation O := FOps.
Local Notation float := PrimFloat.float.

Definition allb (lo hi : R) (xs : list float) : Prop := Forall (fun x => lo <= FR x <= hi) xs.

Lemma allb_window lo hi p (h : list float) : allb lo hi h -> all_between lo hi (map FR (lastn p h)).
Proof.
  intros H y Hy. apply in_map_iff in Hy as (a & <- & Ia). apply In_lastn in Ia. unfold allb in H. rewrite Forall_forall in H. apply H. exact Ia.
Qed.

Lemma prefixes_allb lo hi : forall (xs h : list float), allb lo hi h -> allb lo hi xs -> Forall (allb lo hi) (prefixes_from h xs).
Proof.
  induction xs as [|x xs IH]; intros h Hh Hx; cbn [prefixes_from]; [constructor|].
  assert (Hhx : allb lo hi (h ++ [x])) by (apply Forall_app; split; [exact Hh|constructor; [exact (Forall_inv Hx)|constructor]]).
  constructor; [exact Hhx|]. apply IH; [exact Hhx|exact (Forall_inv_tail Hx)].
Qed.

Lemma Forall_conj {A} (P Q : A -> Prop) l : Forall P l -> Forall Q l -> Forall (fun x => P x /\ Q x) l.
Proof. intros HP. induction HP as [|a l Ha _ IH]; intros HQ; [constructor|]. constructor; [split; [exact Ha|exact (Forall_inv HQ)]|apply IH; exact (Forall_inv_tail HQ)]. Qed.

Lemma Forall2_Forall_r {A B} (P : A -> B -> Prop) (Q : B -> Prop) (R : A -> B -> Prop) :
  (forall a b, P a b -> Q b -> R a b) -> forall l L, Forall2 P l L -> Forall Q L -> Forall2 R l L.
Proof. intros H l L H2. induction H2 as [|a b l L Hab _ IH]; intros HQ; constructor; [apply H; [exact Hab|exact (Forall_inv HQ)]|apply IH; exact (Forall_inv_tail HQ)]. Qed.

Theorem sma_float_between : forall p s xs M lo hi, sma_new O p = Ok s -> (p < 9007199254740992)%N -> 0 <= M ->
  Forall (okin M) xs -> 3 * ((INR (N.to_nat p) + 2) * M + 1) <= BIG -> INR (length xs) * u <= / 16 -> allb lo hi xs ->
  Forall2 (fun o hh => finF o /\ lo - out_bound M (length hh) <= FR o <= hi + out_bound M (length hh))
          (sma_outs' O s xs) (prefixes_from [] xs).
Proof.
  intros p s xs M lo hi H Hp HM Hxs Hbig Ht Hb.
  pose proof (sma_float_error p s xs M H Hp HM Hxs Hbig Ht) as HE.
  pose proof (sma_new_inv O p s H) as (Hp0 & _).
  assert (Hall : Forall (fun hh => allb lo hi hh /\ (1 <= length hh)%nat) (prefixes_from [] xs)).
  { apply Forall_conj; [apply (prefixes_allb lo hi xs [] (Forall_nil _) Hb)|apply (prefixes_from_len xs [])]. }
  eapply Forall2_Forall_r; [|exact HE|exact Hall]. cbv beta. intros o hh [Fo Eo] [Ab Lb]. split; [exact Fo|].
  assert (Hne : map FR (lastn (N.to_nat p) hh) <> []).
  { intros E. apply (f_equal (@length R)) in E. rewrite map_length, lastn_length in E. cbn in E. lia. }
  pose proof (mean_between lo hi _ Hne (allb_window lo hi (N.to_nat p) hh Ab)) as Hm.
  apply Rabs_le_inv in Eo. lra.
Qed.

Theorem wma_float_between : forall p s xs M lo hi, wma_new O p = Ok s -> (p < 67108864)%N ->
  1 <= M -> M <= bpow radix2 400 -> Forall (okin M) xs -> INR (length xs) * u <= / 64 -> allb lo hi xs ->
  Forall2 (fun o hh => finF o /\ lo - wma_bound M (N.to_nat p) (length hh) <= FR o <= hi + wma_bound M (N.to_nat p) (length hh))
          (res_outs (wma_next O) s xs) (prefixes_from [] xs).
Proof.
  intros p s xs M lo hi H Hp HM1 HM2 Hxs Ht Hb.
  pose proof (wma_float_error p s xs M H Hp HM1 HM2 Hxs Ht) as HE.
  pose proof (wma_new_inv O p s H) as (Hp0 & _).
  assert (Hall : Forall (fun hh => allb lo hi hh /\ (1 <= length hh)%nat) (prefixes_from [] xs)).
  { apply Forall_conj; [apply (prefixes_allb lo hi xs [] (Forall_nil _) Hb)|apply (prefixes_from_len xs [])]. }
  eapply Forall2_Forall_r; [|exact HE|exact Hall]. cbv beta. intros o hh [Fo Eo] [Ab Lb]. split; [exact Fo|].
  assert (Hne : map FR (lastn (N.to_nat p) hh) <> []).
  { intros E. apply (f_equal (@length R)) in E. rewrite map_length, lastn_length in E. cbn in E. lia. }
  pose proof (wmean_between lo hi _ Hne (allb_window lo hi (N.to_nat p) hh Ab)) as Hm.
  apply Rabs_le_inv in Eo. lra.
Qed.

(* EMA: within the extremes of the whole history, up to the saturating error 17 (n+1) u M — for streams of any length *)
Theorem ema_float_between : forall p s xs M lo hi, ema_new O p = Ok s -> (p < 140737488355328)%N ->
  bpow radix2 (-960) <= M -> M <= bpow radix2 990 -> Forall (okin M) xs -> allb lo hi xs ->
  Forall (fun o => finF o /\ lo - 17 * (IZR (Z.of_N p) + 1) * u * M <= FR o <= hi + 17 * (IZR (Z.of_N p) + 1) * u * M) (ema_outs O s xs).
Proof.
  intros p s xs M lo hi H Hp HMl HMu Hxs Hb.
  destruct (ema_float_uniform p s xs M H Hp HMl HMu Hxs) as [L HE].
  assert (Hp0 : p <> 0%N) by (unfold ema_new in H; destruct (N.eqb_spec p 0); [discriminate|assumption]).
  pose proof (kreal_range p Hp0) as Hk.
  assert (Hin : forall y, In y (map FR xs) -> lo <= y <= hi).
  { intros y Hy. apply in_map_iff in Hy as (a & <- & Ia). unfold allb in Hb. rewrite Forall_forall in Hb. apply Hb. exact Ia. }
  assert (Hreal : forall e, In e (ema_stream (kreal p) (map FR xs)) -> lo <= e <= hi).
  { destruct xs as [|x xs]; [intros e []|]. cbn [map ema_stream]. intros e [<-|He]; [apply Hin; left; reflexivity|].
    apply (ema_real_between (kreal p) lo hi (FR x) (map FR xs)); [lra|apply Hin; left; reflexivity|intros y Hy; apply Hin; right; exact Hy|exact He]. }
  assert (Lr : length (ema_stream (kreal p) (map FR xs)) = length xs) by (rewrite ema_stream_length, map_length; reflexivity).
  apply (Forall_of_nth _ _ 0%float). intros j Hj. rewrite L in Hj. destruct (HE j Hj) as [Fo Eo]. split; [exact Fo|].
  assert (Hr : lo <= nth j (ema_stream (kreal p) (map FR xs)) 0 <= hi) by (apply Hreal, nth_In; rewrite Lr; exact Hj).
  apply Rabs_le_inv in Eo. lra.
Qed.
