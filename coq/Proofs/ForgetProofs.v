(* Finite memory: the last output is a function of the last p inputs. *)
From Coq Require Import Reals Lia.
From TA Require Import Base Model XR Proofs.Prims Proofs.Ring Proofs.XBase Proofs.XSma Proofs.XWma Proofs.XMad Proofs.XSd
  Proofs.WF Proofs.MinMaxProofs.
Open Scope N_scope.

Lemma last_prefixes {A} (h xs : list A) : xs <> [] -> last (prefixes_from h xs) [] = h ++ xs.
Proof.
  revert h; induction xs as [|x xs IH]; intros h H; [congruence|].
  cbn [prefixes_from]. destruct xs as [|y xs]; [reflexivity|].
  change (last ((h ++ [x]) :: prefixes_from (h ++ [x]) (y :: xs)) []) with (last (prefixes_from (h ++ [x]) (y :: xs)) []).
  rewrite IH by discriminate. rewrite <- app_assoc. reflexivity.
Qed.

Lemma prefixes_ne {A} (h xs : list A) : xs <> [] -> prefixes_from h xs <> [].
Proof. destruct xs; [congruence|discriminate]. Qed.

Lemma last_map {A B} (f : A -> B) (l : list A) d d' : l <> [] -> last (map f l) d' = f (last l d).
Proof.
  induction l as [|a l IH]; intros H; [congruence|]. destruct l as [|b l]; [reflexivity|].
  change (last (map f (a :: b :: l)) d') with (last (map f (b :: l)) d'). rewrite IH by discriminate. reflexivity.
Qed.

Section Forget.
Variable p : N.

Lemma forget_generic {S Out : Type} (outs : S -> list XR -> list Out) (spec : list R -> Out) (s : S) (d : Out) :
  (forall xs, outs s (map Fin xs) = map (fun hh => spec (lastn (N.to_nat p) hh)) (prefixes_from [] xs)) ->
  forall h1 h2, h1 <> [] -> h2 <> [] -> lastn (N.to_nat p) h1 = lastn (N.to_nat p) h2 ->
  last (outs s (map Fin h1)) d = last (outs s (map Fin h2)) d.
Proof.
  intros Hspec h1 h2 N1 N2 E. rewrite !Hspec.
  rewrite (last_map _ _ [] d) by (apply prefixes_ne; exact N1).
  rewrite (last_map _ _ [] d) by (apply prefixes_ne; exact N2).
  rewrite !last_prefixes by assumption. cbn [app]. rewrite E. reflexivity.
Qed.
End Forget.

Theorem sma_forgets : forall p s (h1 h2 : list R), sma_new XROps p = Ok s -> h1 <> [] -> h2 <> [] ->
  lastn (N.to_nat p) h1 = lastn (N.to_nat p) h2 ->
  last (sma_outs s (map Fin h1)) XNaN = last (sma_outs s (map Fin h2)) XNaN.
Proof. intros p s h1 h2 H. apply (forget_generic p sma_outs (fun w => Fin (mean w))). intros xs. exact (sma_refines p s xs H). Qed.

Theorem wma_forgets : forall p s (h1 h2 : list R), wma_new XROps p = Ok s -> h1 <> [] -> h2 <> [] ->
  lastn (N.to_nat p) h1 = lastn (N.to_nat p) h2 ->
  last (wma_outs s (map Fin h1)) XNaN = last (wma_outs s (map Fin h2)) XNaN.
Proof. intros p s h1 h2 H. apply (forget_generic p wma_outs (fun w => Fin (wmean w))). intros xs. exact (wma_refines p s xs H). Qed.

Theorem sd_forgets : forall p s (h1 h2 : list R), sd_new XROps p = Ok s -> h1 <> [] -> h2 <> [] ->
  lastn (N.to_nat p) h1 = lastn (N.to_nat p) h2 ->
  last (sd_outs s (map Fin h1)) XNaN = last (sd_outs s (map Fin h2)) XNaN.
Proof. intros p s h1 h2 H. apply (forget_generic p sd_outs (fun w => Fin (R_sqrt.sqrt (pvar w)))). intros xs. exact (sd_refines p s xs H). Qed.

Theorem mad_forgets : forall p s (h1 h2 : list R), mad_new XROps p = Ok s -> h1 <> [] -> h2 <> [] ->
  lastn (N.to_nat p) h1 = lastn (N.to_nat p) h2 ->
  last (mad_outs s (map Fin h1)) XNaN = last (mad_outs s (map Fin h2)) XNaN.
Proof. intros p s h1 h2 H. apply (forget_generic p mad_outs (fun w => Fin (madev w))). intros xs. exact (mad_refines p s xs H). Qed.

Theorem bb_forgets : forall p mu s (h1 h2 : list R), bb_new XROps p (Fin mu) = Ok s -> h1 <> [] -> h2 <> [] ->
  lastn (N.to_nat p) h1 = lastn (N.to_nat p) h2 ->
  last (bb_outs s (map Fin h1)) [] = last (bb_outs s (map Fin h2)) [].
Proof.
  intros p mu s h1 h2 H N1 N2 E. rewrite !(bb_refines p mu s _ H).
  rewrite (last_map _ _ [] []) by (apply prefixes_ne; exact N1).
  rewrite (last_map _ _ [] []) by (apply prefixes_ne; exact N2).
  rewrite !last_prefixes by assumption. cbn [app]. unfold bb_spec. rewrite E. reflexivity.
Qed.

(* Minimum: both last outputs are least elements of the same window, hence equal under a total order *)
Theorem min_forgets : forall (F : Type) (O : Ops F) (P : F -> Prop) (p : N) (h1 h2 : list F),
  order_on (ltb O) (inf O) P -> 0 < p -> p <= ALLOC_MAX -> Forall P h1 -> Forall P h2 -> h1 <> [] -> h2 <> [] ->
  lastn (N.to_nat p) h1 = lastn (N.to_nat p) h2 ->
  last (min_outs O (mkMin p 0 0 (repeat (inf O) (N.to_nat p))) h1) (inf O) =
  last (min_outs O (mkMin p 0 0 (repeat (inf O) (N.to_nat p))) h2) (inf O).
Proof.
  intros F O P p h1 h2 OR H1 H2 P1 P2 N1 N2 E.
  destruct (min_least O P OR p 0 0 h1 H1 H2 ltac:(lia) ltac:(lia) P1) as [L1 C1].
  destruct (min_least O P OR p 0 0 h2 H1 H2 ltac:(lia) ltac:(lia) P2) as [L2 C2].
  assert (K1 : (length h1 - 1 < length h1)%nat) by (destruct h1; [congruence|cbn; lia]).
  assert (K2 : (length h2 - 1 < length h2)%nat) by (destruct h2; [congruence|cbn; lia]).
  specialize (C1 _ K1). specialize (C2 _ K2).
  replace (S (length h1 - 1)) with (length h1) in C1 by lia. replace (S (length h2 - 1)) with (length h2) in C2 by lia.
  rewrite firstn_all in C1, C2. rewrite E in C1.
  set (o1 := min_outs O _ h1) in *. set (o2 := min_outs O _ h2) in *.
  assert (Ln : forall (l : list F), l <> [] -> last l (inf O) = nth (length l - 1) l (inf O)).
  { intros l Hl. induction l as [|a l IH]; [congruence|]. destruct l as [|b l]; [reflexivity|].
    change (last (a :: b :: l) (inf O)) with (last (b :: l) (inf O)). rewrite IH by discriminate. cbn [length]. 
    replace (S (S (length l)) - 1)%nat with (S (S (length l) - 1)) by lia. reflexivity. }
  rewrite !Ln by (intros Z; apply (f_equal (@length F)) in Z; cbn in Z; lia).
  rewrite L1, L2.
  apply (least_unique O P OR (lastn (N.to_nat p) h2)); [|exact C1|exact C2].
  intros y Hy. apply In_lastn in Hy. rewrite Forall_forall in P2. apply P2. exact Hy.
Qed.
