# C16 — DataItem builder
import itertools
from common import Case
from framework import Violation

rule = ("builder probes: every 5-tuple over the lattice {-inf,-2,-1,-0.0,0.0,1,2,3,+inf,NaN} with all setters in canonical "
        "order (quick: a seeded 1/10 sample plus all tuples over a 5-value sub-lattice; thorough: all 10^5), every subset of "
        "setters, every order of the five setters, sequences with repeated setters, random finite tuples, and ~760 near-tie tuples (two compared prices equal or 1-3 ulps / 1e-13..1e-7 relative apart on either side, at nine magnitudes incl. subnormal and 1e300; volumes just below zero); a case is non-trivial "
        "when it is distinct as (call sequence) — all are single-op cases")
assumptions = ["f64 comparison semantics of rustc on x86-64 are IEEE-754 (NaN unordered)"]
LATTICE = [float("-inf"), -2.0, -1.0, -0.0, 0.0, 1.0, 2.0, 3.0, float("inf"), float("nan")]
FIELDS = "ohlcv"


def gen_cases(ctx):
    r = ctx.rng
    cases = []
    k = 0

    def add(calls, meta=None):
        nonlocal k
        cases.append(Case("b%d" % k, [("build", list(calls))], dump=(), meta=meta or {}))
        k += 1
    tuples = list(itertools.product(LATTICE, repeat=5))
    if not ctx.thorough:
        sub = [-1.0, -0.0, 1.0, 2.0, float("nan")]
        sel = list(itertools.product(sub, repeat=5)) + r.sample(tuples, 7000)
    else:
        sel = tuples
    for t in sel:
        add(zip(FIELDS, t))
    base = (1.5, 3.0, 1.0, 2.0, 10.0)
    for n in range(6):
        for sub in itertools.combinations(range(5), n):
            add([(FIELDS[i], base[i]) for i in sub])
            add([(FIELDS[i], float("nan")) for i in sub])
    for perm in itertools.permutations(range(5)):
        add([(FIELDS[i], base[i]) for i in perm])
    for _ in range(2000 if ctx.thorough else 300):
        n = r.randint(0, 8)
        add([(r.choice(FIELDS), r.choice(LATTICE + [r.uniform(-5, 5)])) for _ in range(n)])
    for _ in range(20000 if ctx.thorough else 1500):
        add(zip(FIELDS, [r.uniform(-100, 100) for _ in range(5)]))
    # near ties (seed-independent): two prices that the validation compares, equal or a few units in the last place / 1e-13 .. 1e-7
    # relative apart on either side — a "rounding tolerant" comparison or a snap-to-range accepts (or alters) what must be rejected
    import math
    def nudge(x, how):
        kind, amt = how
        if kind == "ulp":
            for _ in range(abs(amt)):
                x = math.nextafter(x, math.inf if amt > 0 else -math.inf)
            return x
        return x * (1.0 + amt) if x != 0.0 else amt * 1e-300
    hows = [("ulp", k_) for k_ in (1, -1, 3, -3)] + [("rel", e_ * s_) for e_ in (1e-13, 1e-12, 1e-10, 1e-7) for s_ in (1, -1)]
    n_near = 0
    for x in (20.0, 0.3, 1.0, 1e-3, 1e6, 24.999999999999, -5.0, 2.0 ** -1060, 1e300):
        lo_, hi_ = (x * 0.5, x * 2.0) if x > 0 else (x * 2.0, x * 0.5)
        # (field moved, the field it is compared with): low vs open / close / high, high vs open / close
        for a_, b_ in (("l", "o"), ("l", "c"), ("l", "h"), ("h", "o"), ("h", "c"), ("o", "l"), ("c", "h")):
            for how in hows:
                t = {"o": x, "c": x, "h": hi_, "l": lo_, "v": 1.0}
                t[b_] = x
                t[a_] = nudge(x, how)
                # keep the remaining constraints slack: every other field sits between the two tied ones and the far bounds
                if "h" not in (a_, b_):
                    t["h"] = hi_
                if "l" not in (a_, b_):
                    t["l"] = lo_
                if a_ + b_ in ("lh", "hl"):
                    t["o"] = t["c"] = x if t["l"] <= x <= t["h"] else t["l"]
                add([(f_, t[f_]) for f_ in FIELDS], meta={"near": True})
                n_near += 1
    for v_ in (-5e-324, -1e-300, -2.2250738585072014e-308, 5e-324):
        add(zip(FIELDS, (1.5, 3.0, 1.0, 2.0, v_)), meta={"near": True})
        n_near += 1
    # the same field set twice with zeros of opposite sign (0.0 == -0.0: a setter that skips "unchanged" values keeps the first)
    for f_ in FIELDS:
        for z1, z2 in ((0.0, -0.0), (-0.0, 0.0)):
            add([(g_, 0.0) for g_ in FIELDS] + [(f_, z1), (f_, z2)], meta={"near": True})
            add([(f_, z1), (f_, z2)] + [(g_, 1.0) for g_ in FIELDS if g_ != f_], meta={"near": True})
            n_near += 2
    ctx.stats["near_tie_tuples"] = n_near
    ctx.stats["lattice_tuples"] = len(sel)
    return cases


def nontrivial(c):
    return True


def expected(calls):
    last = {}
    for f, v in calls:
        last[f] = v
    if len(last) < 5:
        return ("err", "DataItemIncomplete")
    o, h, l, c, v = (last[f] for f in FIELDS)
    if l <= o and l <= c and l <= h and h >= o and h >= c and v >= 0.0:
        return ("built", [o, h, l, c, v])
    return ("err", "DataItemInvalid")


def check_impl(ctx, cases):
    from common import bits, fbits
    out = []
    kinds = {}
    for c in cases:
        calls = c.ops[0][1]
        ob = c.obs[0]
        exp = expected(calls)
        kinds[exp[0] + (":" + exp[1] if exp[0] == "err" else "")] = kinds.get(exp[0] + (":" + exp[1] if exp[0] == "err" else ""), 0) + 1
        bad = None
        if exp[0] == "err":
            if ob != exp:
                bad = "build() returned %s, the property requires %s" % (ob, exp)
        else:
            if not (isinstance(ob, tuple) and ob[0] == "built"):
                bad = "build() returned %s, the property requires Ok" % (ob,)
            else:
                want = [bits(x) if x == x else 0x7ff8000000000000 for x in exp[1]]
                if ob[1] != want:
                    bad = "getters return %s, last values set were %s" % (ob[1], want)
                elif ob[2].get("clone_eq") != "true" or ob[2].get("serde_eq") != "true":
                    bad = "clone / serde round-trip of the built item is not equal: %s" % ob[2]
        if bad:
            out.append(Violation(bad, case=c))
            if len(out) > 20:
                break
    ctx.stats["expected_outcomes"] = kinds
    return out
