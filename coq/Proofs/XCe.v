(* ChandelierExit and the bar paths of TrueRange / AverageTrueRange over exact reals: the real forms of the streams, and covariance
   of ChandelierExit with the price unit (scale by c > 0: both stops scale; shift by d: both stops shift) — property C14. *)
From Coq Require Import Reals Lra Lia List.
From TA Require Import Base Model XR Proofs.Prims Proofs.WF Proofs.Ring Proofs.XBase Proofs.MinMaxProofs Proofs.Wiring Proofs.Osc
  Proofs.XEma Proofs.XFast Proofs.XRsi Proofs.XBands Proofs.XCov.
Import ListNotations.
Open Scope R_scope.
Local Notation O := XROps.

Definition trb (pc : option R) (b : rbar) : R :=
  let '(h, l, _) := b in
  match pc with None => h - l | Some c0 => Rmax (Rmax (h - l) (Rabs (h - c0))) (Rabs (l - c0)) end.
Fixpoint trb_stream (pc : option R) (bars : list rbar) : list R :=
  match bars with [] => [] | b :: bs => trb pc b :: trb_stream (Some (snd b)) bs end.

Lemma tr_bar_exact : forall bars pc, tr_bar_outs O (mkTr (option_map Fin pc)) (map mkb bars) = map Fin (trb_stream pc bars).
Proof.
  induction bars as [|[[h l] c] bars IH]; intros pc; [reflexivity|].
  cbn [map tr_bar_outs mkb trb_stream snd]. unfold tr_next_bar. cbn [tr_prev_close b_high b_low b_close].
  rewrite <- (IH (Some c)). cbn [option_map]. f_equal.
  destruct pc as [c0|]; cbn [option_map trb]; xfin; [unfold max3; rewrite !fmax_fin|]; reflexivity.
Qed.

Theorem atr_bar_exact : forall p a bars, atr_new O p = Ok a ->
  atr_bar_outs O a (map mkb bars) = map Fin (ema_stream (kreal p) (trb_stream None bars)).
Proof.
  intros p a bars H. unfold atr_new in H. destruct (ema_new O p) as [e| |] eqn:Ee; cbn in H; try discriminate. injection H as <-.
  rewrite atr_bar_wiring. change tr_new with (mkTr (option_map Fin None)). rewrite tr_bar_exact. apply (ema_outs_xr p e _ Ee).
Qed.

Definition bscale (c : R) (b : rbar) : rbar := let '(h, l, cl) := b in (c * h, c * l, c * cl).
Definition bshift (d : R) (b : rbar) : rbar := let '(h, l, cl) := b in (d + h, d + l, d + cl).

Lemma trb_scale c pc b : 0 <= c -> trb (option_map (Rmult c) pc) (bscale c b) = c * trb pc b.
Proof.
  intros Hc. destruct b as [[h l] cl]. destruct pc as [c0|]; cbn [option_map trb bscale]; [|ring].
  replace (c * h - c * l) with (c * (h - l)) by ring. replace (c * h - c * c0) with (c * (h - c0)) by ring. replace (c * l - c * c0) with (c * (l - c0)) by ring.
  rewrite !Rabs_mult, (Rabs_pos_eq c) by exact Hc. rewrite !RmaxRmult by exact Hc. reflexivity.
Qed.
Lemma trb_shift d pc b : trb (option_map (Rplus d) pc) (bshift d b) = trb pc b.
Proof.
  destruct b as [[h l] cl]. destruct pc as [c0|]; cbn [option_map trb bshift].
  - replace (d + h - (d + l)) with (h - l) by ring. replace (d + h - (d + c0)) with (h - c0) by ring. replace (d + l - (d + c0)) with (l - c0) by ring. reflexivity.
  - ring.
Qed.
Lemma trb_stream_scale c : 0 <= c -> forall bars pc, trb_stream (option_map (Rmult c) pc) (map (bscale c) bars) = map (Rmult c) (trb_stream pc bars).
Proof.
  intros Hc. induction bars as [|b bars IH]; intros pc; [reflexivity|]. cbn [map trb_stream]. rewrite trb_scale by exact Hc. f_equal.
  rewrite <- (IH (Some (snd b))). destruct b as [[h l] cl]. reflexivity.
Qed.
Lemma trb_stream_shift d : forall bars pc, trb_stream (option_map (Rplus d) pc) (map (bshift d) bars) = trb_stream pc bars.
Proof.
  induction bars as [|b bars IH]; intros pc; [reflexivity|]. cbn [map trb_stream]. rewrite trb_shift. f_equal.
  rewrite <- (IH (Some (snd b))). destruct b as [[h l] cl]. reflexivity.
Qed.

(* bar-path TrueRange / ATR: covariance *)
Theorem atr_bar_scale : forall k c bars, 0 <= c ->
  ema_stream k (trb_stream None (map (bscale c) bars)) = map (Rmult c) (ema_stream k (trb_stream None bars)).
Proof. intros k c bars Hc. pose proof (trb_stream_scale c Hc bars None) as E. cbn [option_map] in E. rewrite E, ema_stream_scale. reflexivity. Qed.
Theorem atr_bar_shift : forall k d bars,
  ema_stream k (trb_stream None (map (bshift d) bars)) = ema_stream k (trb_stream None bars).
Proof. intros k d bars. pose proof (trb_stream_shift d bars None) as E. cbn [option_map] in E. rewrite E. reflexivity. Qed.

Lemma map3_maps {A B C D A' B' C' D'} (g : A -> B -> C -> D) (g' : A' -> B' -> C' -> D') f1 f2 f3 (h : D -> D') :
  (forall x y z, g' (f1 x) (f2 y) (f3 z) = h (g x y z)) ->
  forall a b c, map3 g' (map f1 a) (map f2 b) (map f3 c) = map h (map3 g a b c).
Proof.
  intros H. induction a as [|x a IH]; intros [|y b] [|z c]; cbn [map map3]; try reflexivity. rewrite H, IH. reflexivity.
Qed.

Lemma map3_map1 {A A' B C D} (g : A' -> B -> C -> D) (f : A -> A') : forall a b c, map3 g (map f a) b c = map3 (fun x => g (f x)) a b c.
Proof. induction a as [|x a IH]; intros [|y b] [|z c]; cbn [map map3]; try reflexivity. rewrite IH. reflexivity. Qed.

Definition ce_g (m : XR) := fun at_ lo hi : XR => [sub O hi (mul O at_ m); add O lo (mul O at_ m)].

Lemma lows_mkb bars : map b_low (map mkb bars) = map Fin (map (fun b : rbar => snd (fst b)) bars).
Proof. rewrite !map_map. apply map_ext. intros [[h l] c]. reflexivity. Qed.
Lemma highs_mkb bars : map b_high (map mkb bars) = map Fin (map (fun b : rbar => fst (fst b)) bars).
Proof. rewrite !map_map. apply map_ext. intros [[h l] c]. reflexivity. Qed.

(* ChandelierExit: rescaling all prices by c > 0 rescales both stops *)
Theorem ce_scale : forall p mu s c bars, ce_new O p (Fin mu) = Ok s -> 0 < c ->
  ce_outs O s (map mkb (map (bscale c) bars)) = map (map (xmap (Rmult c))) (ce_outs O s (map mkb bars)).
Proof.
  intros p mu s c bars H Hc. unfold ce_new in H.
  destruct (atr_new O p) as [a| |] eqn:Ea; cbn in H; try discriminate.
  destruct (min_new O p) as [mn0| |] eqn:Emn; cbn in H; try discriminate.
  destruct (max_new O p) as [mx0| |] eqn:Emx; cbn in H; try discriminate. injection H as <-.
  rewrite !ce_wiring, !(atr_bar_exact p a _ Ea), !lows_mkb, !highs_mkb, !min_outs_same, !max_outs_same.
  rewrite (atr_bar_scale (kreal p) c bars ltac:(lra)).
  assert (El : map (fun b : rbar => snd (fst b)) (map (bscale c) bars) = map (Rmult c) (map (fun b : rbar => snd (fst b)) bars))
    by (rewrite !map_map; apply map_ext; intros [[h l] cl]; reflexivity).
  assert (Eh : map (fun b : rbar => fst (fst b)) (map (bscale c) bars) = map (Rmult c) (map (fun b : rbar => fst (fst b)) bars))
    by (rewrite !map_map; apply map_ext; intros [[h l] cl]; reflexivity).
  assert (Hinc : increasing (Rmult c)) by (intros x y Hxy; apply Rmult_lt_compat_l; assumption).
  rewrite El, Eh, (min_mono p mn0 (Rmult c) _ Emn Hinc), (max_mono p mx0 (Rmult c) _ Emx Hinc).
  rewrite (map3_map1 _ Fin), (map3_map1 _ Fin), map_map.
  rewrite (map3_maps (fun at_ lo hi => [sub O hi (mul O (Fin at_) (Fin mu)); add O lo (mul O (Fin at_) (Fin mu))])
                     (fun at_ lo hi => [sub O hi (mul O (Fin at_) (Fin mu)); add O lo (mul O (Fin at_) (Fin mu))])
                     (Rmult c) (xmap (Rmult c)) (xmap (Rmult c)) (map (xmap (Rmult c)))); [reflexivity|].
  intros at_ lo hi. xfin. destruct lo, hi; cbn; try reflexivity; repeat (f_equal; try ring).
Qed.

(* ChandelierExit: shifting all prices by d shifts both stops *)
Theorem ce_shift : forall p mu s d bars, ce_new O p (Fin mu) = Ok s ->
  ce_outs O s (map mkb (map (bshift d) bars)) = map (map (xmap (Rplus d))) (ce_outs O s (map mkb bars)).
Proof.
  intros p mu s d bars H. unfold ce_new in H.
  destruct (atr_new O p) as [a| |] eqn:Ea; cbn in H; try discriminate.
  destruct (min_new O p) as [mn0| |] eqn:Emn; cbn in H; try discriminate.
  destruct (max_new O p) as [mx0| |] eqn:Emx; cbn in H; try discriminate. injection H as <-.
  rewrite !ce_wiring, !(atr_bar_exact p a _ Ea), !lows_mkb, !highs_mkb, !min_outs_same, !max_outs_same.
  rewrite (atr_bar_shift (kreal p) d bars).
  assert (El : map (fun b : rbar => snd (fst b)) (map (bshift d) bars) = map (Rplus d) (map (fun b : rbar => snd (fst b)) bars))
    by (rewrite !map_map; apply map_ext; intros [[h l] cl]; reflexivity).
  assert (Eh : map (fun b : rbar => fst (fst b)) (map (bshift d) bars) = map (Rplus d) (map (fun b : rbar => fst (fst b)) bars))
    by (rewrite !map_map; apply map_ext; intros [[h l] cl]; reflexivity).
  assert (Hinc : increasing (Rplus d)) by (intros x y Hxy; apply Rplus_lt_compat_l; assumption).
  rewrite El, Eh, (min_mono p mn0 (Rplus d) _ Emn Hinc), (max_mono p mx0 (Rplus d) _ Emx Hinc).
  rewrite (map3_map1 _ Fin), (map3_map1 _ Fin).
  rewrite <- (map_id (ema_stream (kreal p) (trb_stream None bars))) at 1.
  rewrite (map3_maps (fun at_ lo hi => [sub O hi (mul O (Fin at_) (Fin mu)); add O lo (mul O (Fin at_) (Fin mu))])
                     (fun at_ lo hi => [sub O hi (mul O (Fin at_) (Fin mu)); add O lo (mul O (Fin at_) (Fin mu))])
                     (fun x => x) (xmap (Rplus d)) (xmap (Rplus d)) (map (xmap (Rplus d)))); [reflexivity|].
  intros at_ lo hi. xfin. destruct lo, hi; cbn; try reflexivity; repeat (f_equal; try ring).
Qed.

(* ---- KeltnerChannel fed bars: real form and covariance ---- *)
Definition tpb (b : rbar) : R := let '(h, l, c) := b in (c + h + l) / 3.
Definition kc_bar_real (k m : R) (bars : list rbar) : list (list R) :=
  map2 (fun av at_ => [av; av + at_ * m; av - at_ * m]) (ema_stream k (map tpb bars)) (ema_stream k (trb_stream None bars)).

Theorem kc_bar_exact : forall p m s bars, kc_new O p (Fin m) = Ok s ->
  kc_bar_outs O s (map mkb bars) = map (map Fin) (kc_bar_real (kreal p) m bars).
Proof.
  intros p m s bars H. unfold kc_new in H.
  destruct (atr_new O p) as [a| |] eqn:Ea; cbn in H; try discriminate.
  destruct (ema_new O p) as [e| |] eqn:Ee; cbn in H; try discriminate. injection H as <-.
  rewrite kc_bar_wiring, (atr_bar_exact p a bars Ea).
  assert (Etp : map (typical O) (map mkb bars) = map Fin (map tpb bars)).
  { rewrite !map_map. apply map_ext. intros [[h l] c]. unfold typical, mkb, tpb. cbn [b_close b_high b_low]. xfin. rewrite xr_div_fin by lra. reflexivity. }
  rewrite Etp, (ema_outs_xr p e _ Ee). apply map2_bands.
Qed.

Theorem kc_bar_scale : forall k m c bars, 0 <= c -> kc_bar_real k m (map (bscale c) bars) = map (map (Rmult c)) (kc_bar_real k m bars).
Proof.
  intros k m c bars Hc. unfold kc_bar_real. rewrite atr_bar_scale by exact Hc.
  assert (E : map tpb (map (bscale c) bars) = map (Rmult c) (map tpb bars)) by (rewrite !map_map; apply map_ext; intros [[h l] cl]; unfold tpb, bscale; field).
  rewrite E, ema_stream_scale, map2_map_l, map2_map_r, map_map2. apply map2_ext. intros x y. cbn [map].
  replace (c * (x + y * m)) with (c * x + c * y * m) by ring. replace (c * (x - y * m)) with (c * x - c * y * m) by ring. reflexivity.
Qed.
Theorem kc_bar_shift : forall k m d bars, kc_bar_real k m (map (bshift d) bars) = map (map (Rplus d)) (kc_bar_real k m bars).
Proof.
  intros k m d bars. unfold kc_bar_real. rewrite atr_bar_shift.
  assert (E : map tpb (map (bshift d) bars) = map (Rplus d) (map tpb bars)) by (rewrite !map_map; apply map_ext; intros [[h l] cl]; unfold tpb, bshift; field).
  rewrite E, ema_stream_shift, map2_map_l, map_map2. apply map2_ext. intros x y. cbn [map].
  replace (d + (x + y * m)) with (d + x + y * m) by ring. replace (d + (x - y * m)) with (d + x - y * m) by ring. reflexivity.
Qed.

Lemma FloatMacd_len k X : length (ema_stream k X) = length X.
Proof. destruct X as [|x0 X0]; [reflexivity|]. cbn [ema_stream length]. f_equal. revert x0. induction X0 as [|y ys IH]; intros x0; [reflexivity|]. cbn [ema_real length]. f_equal. apply IH. Qed.

(* ---- ChandelierExit, exactly: long = (greatest high of the window) - multiplier * ATR, short = (least low) + multiplier * ATR,
        the ATR being the EMA of the bar TrueRange; no hypothesis on the bars or the multiplier ---- *)
Theorem ce_exact : forall p mu c bars, ce_new O p (Fin mu) = Ok c ->
  let highs := map (fun b : rbar => fst (fst b)) bars in
  let lows := map (fun b : rbar => snd (fst b)) bars in
  let atrs := ema_stream (kreal p) (trb_stream None bars) in
  forall k, (k < length bars)%nat ->
    exists mx mn, nth k (ce_outs O c (map mkb bars)) [] = [Fin (mx - nth k atrs 0 * mu); Fin (mn + nth k atrs 0 * mu)] /\
      In mx (lastn (N.to_nat p) (firstn (S k) highs)) /\ (forall y, In y (lastn (N.to_nat p) (firstn (S k) highs)) -> y <= mx) /\
      In mn (lastn (N.to_nat p) (firstn (S k) lows)) /\ (forall y, In y (lastn (N.to_nat p) (firstn (S k) lows)) -> mn <= y).
Proof.
  intros p mu c bars H highs lows atrs k Hk. unfold ce_new in H.
  destruct (atr_new O p) as [a| |] eqn:Ea; cbn in H; try discriminate.
  destruct (min_new O p) as [mn0| |] eqn:Emn; cbn in H; try discriminate.
  destruct (max_new O p) as [mx0| |] eqn:Emx; cbn in H; try discriminate. injection H as <-.
  pose proof (min_new_inv O p mn0 Emn) as (Hp0 & Hpa & _ & _).
  rewrite min_new_ok in Emn by assumption. injection Emn as <-.
  rewrite max_new_ok in Emx by assumption. injection Emx as <-.
  assert (Hp : (0 < p)%N) by lia.
  rewrite ce_wiring, (atr_bar_exact p a bars Ea). fold atrs.
  assert (Lat : length atrs = length bars).
  { unfold atrs. rewrite FloatMacd_len. clear. generalize (@None R). induction bars as [|b bars IH]; intros pc; [reflexivity|]. cbn [trb_stream length]. f_equal. apply IH. }
  rewrite lows_mkb, highs_mkb. fold lows highs. rewrite min_outs_same, max_outs_same.
  destruct (min_least O finP order_min p 0 0 (map Fin lows) Hp Hpa Hp Hp (Forall_finP lows)) as [Lmin Cmin].
  destruct (max_greatest O finN p 0 0 (map Fin highs) order_max Hp Hpa Hp Hp (Forall_finN highs)) as [Lmax Cmax].
  rewrite map_length in *.
  assert (Ll : length lows = length bars) by (unfold lows; apply map_length).
  assert (Lh : length highs = length bars) by (unfold highs; apply map_length).
  assert (Hkl : (k < length lows)%nat) by (rewrite Ll; exact Hk).
  assert (Hkh : (k < length highs)%nat) by (rewrite Lh; exact Hk).
  specialize (Cmin k Hkl). specialize (Cmax k Hkh).
  rewrite firstn_map, lastn_map' in Cmin, Cmax.
  set (wl := lastn (N.to_nat p) (firstn (S k) lows)) in *. set (wh := lastn (N.to_nat p) (firstn (S k) highs)) in *.
  assert (Hwl : wl <> []) by (unfold wl; intros E; apply (f_equal (@length R)) in E; rewrite lastn_length, firstn_length in E; cbn [length] in E; lia).
  assert (Hwh : wh <> []) by (unfold wh; intros E; apply (f_equal (@length R)) in E; rewrite lastn_length, firstn_length in E; cbn [length] in E; lia).
  destruct (least_fin wl _ Hwl Cmin) as (mn & Emn & Hmn). destruct (greatest_fin wh _ Hwh Cmax) as (mx & Emx & Hmx).
  assert (Imn : In mn wl) by (destruct Cmin as [I0 _]; rewrite Emn in I0; apply in_map_iff in I0 as (y & Ey & Iy); injection Ey as ->; exact Iy).
  assert (Imx : In mx wh) by (destruct Cmax as [I0 _]; rewrite Emx in I0; apply in_map_iff in I0 as (y & Ey & Iy); injection Ey as ->; exact Iy).
  assert (L1 : length (min_outs O {| min_period := p; min_min_index := 0; min_cur_index := 0; min_deque := repeat (inf O) (N.to_nat p) |} (map Fin lows)) = length (map Fin atrs))
    by (rewrite map_length, Lmin, Ll, Lat; reflexivity).
  assert (L2 : length (max_outs O {| max_period := p; max_max_index := 0; max_cur_index := 0; max_deque := repeat (ninf O) (N.to_nat p) |} (map Fin highs)) = length (map Fin atrs))
    by (rewrite map_length, Lmax, Lh, Lat; reflexivity).
  rewrite (map3_nth _ _ _ _ k (Fin 0) (inf O) (ninf O) _ L1 L2) by (rewrite map_length, Lat; exact Hk).
  rewrite Emn, Emx. change (Fin 0) with (Fin 0%R). rewrite map_nth. xfin.
  exists mx, mn. repeat split; auto.
Qed.
