(* C01 — Sliding-window statistics equal the textbook value of exactly the last n inputs. Statements only. *)
From TA Require Import Base Model Proofs.WF Proofs.Ring Proofs.MinMaxProofs.
Open Scope N_scope.

(* Minimum: for every period p, every position of the two cursors the all-padding buffer is (re)started
   from, and every stream of values on which < is a strict total order with +inf on top (IEEE < on
   non-NaN floats of one zero sign; the reals), the k-th output is an element of the last min(k+1,p)
   inputs and no element of that window is smaller. No padding while warming up, nothing older retained. *)
Theorem C01_min_least : forall (F : Type) (O : Ops F) (P : F -> Prop) (p mi ci : N) (xs : list F),
  order_on (ltb O) (inf O) P ->
  0 < p -> p <= ALLOC_MAX -> mi < p -> ci < p -> Forall P xs ->
  let outs := min_outs O (mkMin p mi ci (repeat (inf O) (N.to_nat p))) xs in
  length outs = length xs /\
  forall k, (k < length xs)%nat ->
    least_in O (lastn (N.to_nat p) (firstn (S k) xs)) (nth k outs (inf O)).
Proof. intros F O P p mi ci xs OR. exact (min_least O P OR p mi ci xs). Qed.

Theorem C01_max_greatest : forall (F : Type) (O : Ops F) (P : F -> Prop) (p mi ci : N) (xs : list F),
  order_on (fun a b => ltb O b a) (ninf O) P ->
  0 < p -> p <= ALLOC_MAX -> mi < p -> ci < p -> Forall P xs ->
  let outs := max_outs O (mkMax p mi ci (repeat (ninf O) (N.to_nat p))) xs in
  length outs = length xs /\
  forall k, (k < length xs)%nat ->
    greatest_in O (lastn (N.to_nat p) (firstn (S k) xs)) (nth k outs (ninf O)).
Proof. intros F O P p mi ci xs OR. exact (max_greatest O P p mi ci xs OR). Qed.

(* ---- exact arithmetic (extended reals, no rounding): model = textbook statistic of the last min(t,p) inputs ----
   [prefixes_from [] xs] lists the non-empty prefixes of the stream; [lastn p h] is its last min(|h|,p) elements.
   Every period p >= 1 (up to the allocation limit), every finite stream of any length and sign, every prefix. *)
From Coq Require Import Reals Lra.
From TA Require Import XR Proofs.XBase Proofs.XSma Proofs.XWma Proofs.XMad Proofs.XSd.

Theorem C01_sma_refines : forall (p : N) (s : @Sma XR) (xs : list R), sma_new XROps p = Ok s ->
  sma_outs s (map Fin xs) = map (fun h => Fin (mean (lastn (N.to_nat p) h))) (prefixes_from [] xs).
Proof. exact sma_refines. Qed.

(* weights 1..k, newest heaviest: wmean l = (sum_j j * l_j) / (k(k+1)/2) *)
Theorem C01_wma_refines : forall (p : N) (s : @Wma XR) (xs : list R), wma_new XROps p = Ok s ->
  wma_outs s (map Fin xs) = map (fun h => Fin (wmean (lastn (N.to_nat p) h))) (prefixes_from [] xs).
Proof. exact wma_refines. Qed.

(* population standard deviation: sqrt (sum (x - mean)^2 / k) *)
Theorem C01_sd_refines : forall (p : N) (s : @Sd XR) (xs : list R), sd_new XROps p = Ok s ->
  sd_outs s (map Fin xs) = map (fun h => Fin (R_sqrt.sqrt (pvar (lastn (N.to_nat p) h)))) (prefixes_from [] xs).
Proof. exact sd_refines. Qed.

(* mean absolute deviation about the window mean *)
Theorem C01_mad_refines : forall (p : N) (s : @Mad XR) (xs : list R), mad_new XROps p = Ok s ->
  mad_outs s (map Fin xs) = map (fun h => Fin (madev (lastn (N.to_nat p) h))) (prefixes_from [] xs).
Proof. exact mad_refines. Qed.

(* bands: [mean; mean + sd * m; mean - sd * m] of the window, any finite multiplier *)
Theorem C01_bb_refines : forall (p : N) (mu : R) (s : @Bb XR) (xs : list R), bb_new XROps p (Fin mu) = Ok s ->
  bb_outs s (map Fin xs) = map (bb_spec (N.to_nat p) mu) (prefixes_from [] xs).
Proof. exact bb_refines. Qed.

(* the definitions used above, pinned *)
Theorem C01_specs : forall l : list R,
  mean l = (Rsum l / INR (length l))%R /\
  wmean l = (wsum l / (INR (length l) * (INR (length l) + 1) / 2))%R /\
  pvar l = (Rsum (map (fun x => (x - mean l) * (x - mean l))%R l) / INR (length l))%R /\
  madev l = (Rsum (map (fun x => Rabs (x - mean l)) l) / INR (length l))%R /\
  wsum [1; 10; 100]%R = (1 * 1 + 2 * 10 + (3 * 100 + 0))%R.
Proof. intros l. repeat split; try reflexivity. unfold wsum. cbn. lra. Qed.

(* non-vacuity: a wrapped window with a tie and a sign change *)
Example C01_example : exists s, sma_new XROps 2 = Ok s /\
  sma_outs s (map Fin [3; -1; -1; 5]%R) = [Fin (mean [3]); Fin (mean [3; -1]); Fin (mean [-1; -1]); Fin (mean [-1; 5])]%R.
Proof. eexists. split; [reflexivity|]. rewrite (sma_refines 2 _ _ eq_refl). reflexivity. Qed.

(* ---- IEEE-754 binary64 (Coq primitive floats specified by FloatAxioms, through Flocq): the order hypotheses hold for <
   on every float that is neither NaN nor -0.0 ([okF]), so Minimum / Maximum are exact on the float instance, bit for bit ---- *)
From TA Require Import FloatInst Proofs.FloatOrder.
Theorem C01_float_order : order_on (ltb FOps) (inf FOps) okF /\ order_on (fun a b => ltb FOps b a) (ninf FOps) okF.
Proof. split; [exact float_order_min|exact float_order_max]. Qed.

Theorem C01_min_least_binary64 : forall (p mi ci : N) (xs : list PrimFloat.float),
  0 < p -> p <= ALLOC_MAX -> mi < p -> ci < p -> Forall okF xs ->
  let outs := min_outs FOps (mkMin p mi ci (repeat (inf FOps) (N.to_nat p))) xs in
  length outs = length xs /\
  forall k, (k < length xs)%nat -> least_in FOps (lastn (N.to_nat p) (firstn (S k) xs)) (nth k outs (inf FOps)).
Proof. intros p mi ci xs. exact (min_least FOps okF float_order_min p mi ci xs). Qed.

Theorem C01_max_greatest_binary64 : forall (p mi ci : N) (xs : list PrimFloat.float),
  0 < p -> p <= ALLOC_MAX -> mi < p -> ci < p -> Forall okF xs ->
  let outs := max_outs FOps (mkMax p mi ci (repeat (ninf FOps) (N.to_nat p))) xs in
  length outs = length xs /\
  forall k, (k < length xs)%nat -> greatest_in FOps (lastn (N.to_nat p) (firstn (S k) xs)) (nth k outs (ninf FOps)).
Proof. intros p mi ci xs. exact (max_greatest FOps okF p mi ci xs float_order_max). Qed.

(* ---- refuted at the edge of the binary64 range (known finding K8): finite inputs whose running sum overflows ---- *)
From Coq Require Import Floats List.
From TA Require Import Generic FloatInst Run.
(* SMA(2) fed 1.7e308 twice returns +inf (the mean, 1.7e308, is representable) and never recovers *)
Theorem C01_K8_sma_overflow_inf :
  last_out [oN 0 KSma (Pm 2 0 0 0); oX 0 1.7e308; oX 0 1.7e308] = [infinity] /\
  last_out [oN 0 KSma (Pm 2 0 0 0); oX 0 1.7e308; oX 0 1.7e308; oX 0 1; oX 0 1] = [infinity].
Proof. split; vm_compute; reflexivity. Qed.
Theorem C01_K8_wma_overflow_nan :
  map PrimFloat.is_nan (last_out [oN 0 KWma (Pm 2 0 0 0); oX 0 1.7e308; oX 0 1.7e308; oX 0 1.7e308]) = [true].
Proof. vm_compute. reflexivity. Qed.

(* ---- the rounding component, PROVED for SimpleMovingAverage on binary64 (Flocq): for every period below 2^53 and every
        stream of up to 2^49 finite inputs bounded in magnitude by M (2^-960 <= M, 3((n+2)M+1) <= 2^1000, i.e. no overflow),
        every output is finite and within tau(t)*M of the exact mean of the last min(t,n) inputs ---- *)
From Coq Require Import Reals List Floats.
From Flocq Require Import Core.
From TA Require Import FloatInst Proofs.XSma Proofs.Wiring Proofs.FloatErr Proofs.FloatSma.
Theorem C01_sma_binary64_within_tau : forall p s xs M, sma_new FOps p = Ok s -> (p < 9007199254740992)%N ->
  (bpow radix2 (-960) <= M)%R -> Forall (okin M) xs -> (3 * ((INR (N.to_nat p) + 2) * M + 1) <= BIG)%R ->
  (INR (length xs) * u <= / 16)%R ->
  Forall2 (fun o hh => finF o /\
             (Rabs (FR o - mean (map FR (lastn (N.to_nat p) hh))) <=
              (1 / 10 ^ 12 + 1 / 10 ^ 15 * (INR (length hh) * R_sqrt.sqrt (INR (length hh)))) * M)%R)
          (sma_outs' FOps s xs) (prefixes_from [] xs).
Proof. exact sma_float_within_tau. Qed.
(* the explicit bound behind it: (9t+1) * 2^-53 * M + (5t+1) * 2^-1075 *)
Theorem C01_sma_binary64_error : forall p s xs M, sma_new FOps p = Ok s -> (p < 9007199254740992)%N -> (0 <= M)%R ->
  Forall (okin M) xs -> (3 * ((INR (N.to_nat p) + 2) * M + 1) <= BIG)%R -> (INR (length xs) * u <= / 16)%R ->
  Forall2 (fun o hh => finF o /\ (Rabs (FR o - mean (map FR (lastn (N.to_nat p) hh))) <= out_bound M (length hh))%R)
          (sma_outs' FOps s xs) (prefixes_from [] xs).
Proof. exact sma_float_error. Qed.

(* ... and PROVED for MeanAbsoluteDeviation on binary64: the running sum, the mean, the inner loop over the stored window (a permutation
   of the window) and the final division: every output finite, >= 0 and within (12t+10) * 2^-53 * M + (5t+1) * 2^-1075 <= tau(t) * M of
   the exact mean absolute deviation of the last min(t,n) inputs; periods <= 2^47, up to 2^47 inputs, 1 <= M <= 2^400 *)
From TA Require Import Proofs.XMad Proofs.FloatMadErr.
Theorem C01_mad_binary64_within_tau : forall p s xs M, mad_new FOps p = Ok s -> (p <= 140737488355328)%N ->
  (1 <= M)%R -> (M <= bpow radix2 400)%R -> Forall (okin M) xs -> (INR (length xs) * u <= / 64)%R ->
  Forall2 (fun o hh => let t := INR (length hh) in finF o /\ (0 <= FR o)%R /\
            (Rabs (FR o - madev (map FR (lastn (N.to_nat p) hh))) <= (1 / 10 ^ 12 + 1 / 10 ^ 15 * (t * R_sqrt.sqrt t)) * M)%R)
          (Wiring.mad_outs FOps s xs) (prefixes_from [] xs).
Proof. exact mad_float_within_tau. Qed.
Theorem C01_mad_binary64_error : forall p s xs M, mad_new FOps p = Ok s -> (p <= 140737488355328)%N ->
  (1 <= M)%R -> (M <= bpow radix2 400)%R -> Forall (okin M) xs -> (INR (length xs) * u <= / 64)%R ->
  Forall2 (fun o hh => finF o /\ (0 <= FR o)%R /\
            (Rabs (FR o - madev (map FR (lastn (N.to_nat p) hh))) <= (12 * INR (length hh) + 10) * u * M + (5 * INR (length hh) + 1) * eta)%R)
          (Wiring.mad_outs FOps s xs) (prefixes_from [] xs).
Proof. exact mad_float_error. Qed.

(* WeightedMovingAverage on binary64: NOT within tau (known finding K7) — what is PROVED is the true order of its error: at most
   quadratic in the number of inputs. The flat running sum errs linearly in t (as SimpleMovingAverage does), and that error is fed into
   the weighted running sum at every step. Periods below 2^26, up to 2^47 inputs, 1 <= M <= 2^400; the denominator n(n+1)/2 is exact. *)
From TA Require Import Proofs.XWma Proofs.FloatWma.
Theorem C01_wma_binary64_error : forall p s xs M, wma_new FOps p = Ok s -> (p < 67108864)%N ->
  (1 <= M)%R -> (M <= bpow radix2 400)%R -> Forall (okin M) xs -> (INR (length xs) * u <= / 64)%R ->
  Forall2 (fun o hh => finF o /\ (Rabs (FR o - wmean (map FR (lastn (N.to_nat p) hh))) <= wma_bound M (N.to_nat p) (length hh))%R)
          (res_outs (wma_next FOps) s xs) (prefixes_from [] xs).
Proof. exact wma_float_error. Qed.
Theorem C01_wma_bound_def : forall M p T, wma_bound M p T =
  ((4 * INR T * INR T * (u * (INR p + 1) * M + eta) + 6 * INR T * (u * (INR p * (INR p + 1) / 2 + INR p) * M + eta))
   / (INR (Nat.min T p) * (INR (Nat.min T p) + 1) / 2) * (1 + u) + u * M + eta)%R.
Proof. reflexivity. Qed.
Theorem C01_wma_bound_full_window : forall M p T, (1 <= M)%R -> (1 <= p <= T)%nat ->
  (wma_bound M p T <= (9 * INR T * INR T / INR p + 13 * INR T + 1) * u * M + (5 * INR T * INR T + 7 * INR T + 1) * eta)%R.
Proof. exact wma_bound_full. Qed.

From Coq Require Import List Floats.
From TA Require Import Generic FloatInst XQ Run2 Par.Hom Par.Var Par.Oracle.
(* the T2 oracle (exact rational run, evaluated by the checks) is the image of the exact real run these
   theorems are about; SD/BB through the variance model (sqrt := identity, Par/Var.v) *)
Theorem C01_t2_oracle_variance : forall fops : list (@op float),
  snd (run XRvOps [] (map (map_op f2xr) fops)) = map (map_obs q2x) (snd (run XQOps [] (map qop fops))).
Proof. exact t2_oracle_variance. Qed.
Theorem C01_t2_oracle : forall fops : list (@op float), forallb no_sqrt_kind fops = true ->
  snd (run XROps [] (map (map_op f2xr) fops)) = map (map_obs q2x) (snd (run XQOps [] (map qop fops))).
Proof. exact t2_oracle. Qed.
