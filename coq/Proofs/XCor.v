(* Corollaries of the refinement theorems over the exact carrier: non-negativity, ordering of bands, convexity
   bounds, flat windows, covariance with the price unit. *)
From Coq Require Import Reals Lra Lia.
From TA Require Import Base Model XR Proofs.Prims Proofs.WF Proofs.Ring Proofs.XBase Proofs.XSma Proofs.XWma Proofs.XMad Proofs.XSd
  Proofs.MinMaxProofs.
Open Scope R_scope.

(* ---------- list facts ---------- *)
Definition all_between (lo hi : R) (l : list R) : Prop := forall y, In y l -> lo <= y <= hi.

Lemma Rsum_between lo hi l : all_between lo hi l -> INR (length l) * lo <= Rsum l <= INR (length l) * hi.
Proof.
  induction l as [|x l IH]; intros H; [cbn; lra|].
  cbn [Rsum length]. rewrite S_INR.
  assert (Hx : lo <= x <= hi) by (apply H; left; reflexivity).
  assert (Hl : all_between lo hi l) by (intros y Hy; apply H; right; exact Hy).
  specialize (IH Hl). lra.
Qed.

Lemma mean_between lo hi l : l <> [] -> all_between lo hi l -> lo <= mean l <= hi.
Proof.
  intros Hne H. unfold mean. pose proof (Rsum_between lo hi l H) as [A B].
  assert (Hk : 0 < INR (length l)) by (apply lt_0_INR; destruct l; [congruence|cbn; lia]).
  split.
  - apply Rmult_le_reg_r with (INR (length l)); [exact Hk|]. unfold Rdiv. rewrite Rmult_assoc, Rinv_l by lra. lra.
  - apply Rmult_le_reg_r with (INR (length l)); [exact Hk|]. unfold Rdiv. rewrite Rmult_assoc, Rinv_l by lra. lra.
Qed.

Lemma wsum_from_between lo hi i l : all_between lo hi l ->
  (Rsum (map INR (seq i (length l)))) * lo <= wsum_from i l <= (Rsum (map INR (seq i (length l)))) * hi.
Proof.
  revert i; induction l as [|x l IH]; intros i H; [cbn; lra|].
  cbn [wsum_from length seq map Rsum].
  assert (Hx : lo <= x <= hi) by (apply H; left; reflexivity).
  assert (Hl : all_between lo hi l) by (intros y Hy; apply H; right; exact Hy).
  specialize (IH (S i) Hl). pose proof (pos_INR i). nra.
Qed.

Lemma sum_seq_INR n : Rsum (map INR (seq 1 n)) = INR n * (INR n + 1) / 2.
Proof.
  induction n as [|n IH]; [cbn; lra|].
  rewrite seq_S, map_app, Rsum_app, IH. cbn [map Rsum]. replace (1 + n)%nat with (S n) by lia. rewrite !S_INR. lra.
Qed.

Lemma wmean_between lo hi l : l <> [] -> all_between lo hi l -> lo <= wmean l <= hi.
Proof.
  intros Hne H. unfold wmean, wsum. pose proof (wsum_from_between lo hi 1 l H) as [A B].
  rewrite sum_seq_INR in A, B.
  assert (Hk : 0 < INR (length l)) by (apply lt_0_INR; destruct l; [congruence|cbn; lia]).
  set (W := INR (length l) * (INR (length l) + 1) / 2) in *.
  assert (HW : 0 < W) by (unfold W; nra).
  split; apply Rmult_le_reg_r with W; try exact HW; unfold Rdiv; rewrite Rmult_assoc, Rinv_l by lra; lra.
Qed.

Lemma madev_nonneg l : 0 <= madev l.
Proof.
  unfold madev. destruct l as [|a l]; [cbn; lra|].
  apply Rmult_le_pos.
  - generalize (mean (a :: l)). intros c. induction (a :: l) as [|y r IH]; cbn; [lra|]. pose proof (Rabs_pos (y - c)). lra.
  - left. apply Rinv_0_lt_compat. apply lt_0_INR. cbn; lia.
Qed.

(* a flat window: every statistic is degenerate *)
Definition flat (v : R) (l : list R) : Prop := forall y, In y l -> y = v.

Lemma mean_flat v l : l <> [] -> flat v l -> mean l = v.
Proof.
  intros Hne H. assert (B : all_between v v l) by (intros y Hy; rewrite (H y Hy); lra).
  pose proof (mean_between v v l Hne B). lra.
Qed.

Lemma madev_flat v l : l <> [] -> flat v l -> madev l = 0.
Proof.
  intros Hne H. unfold madev. rewrite (mean_flat v l Hne H).
  assert (E : Rsum (map (fun x => Rabs (x - v)) l) = 0).
  { clear Hne. induction l as [|a l IH]; [reflexivity|]. cbn [map Rsum].
    rewrite (H a (or_introl eq_refl)). rewrite IH by (intros y Hy; apply H; right; exact Hy).
    replace (v - v) with 0 by lra. rewrite Rabs_R0. lra. }
  rewrite E. unfold Rdiv. lra.
Qed.

Lemma pvar_flat v l : l <> [] -> flat v l -> pvar l = 0.
Proof.
  intros Hne H. unfold pvar, dev2. rewrite (mean_flat v l Hne H).
  assert (E : Rsum (map (fun x => (x - v) * (x - v)) l) = 0).
  { clear Hne. induction l as [|a l IH]; [reflexivity|]. cbn [map Rsum].
    rewrite (H a (or_introl eq_refl)). rewrite IH by (intros y Hy; apply H; right; exact Hy). lra. }
  rewrite E. unfold Rdiv. lra.
Qed.

(* scaling and shifting *)
Lemma Rsum_scale c l : Rsum (map (Rmult c) l) = c * Rsum l.
Proof. induction l as [|x l IH]; cbn; [lra|rewrite IH; lra]. Qed.
Lemma mean_scale c l : mean (map (Rmult c) l) = c * mean l.
Proof. unfold mean. rewrite Rsum_scale, map_length. unfold Rdiv. lra. Qed.
Lemma Rsum_shift d l : Rsum (map (Rplus d) l) = INR (length l) * d + Rsum l.
Proof. induction l as [|x l IH]; [cbn; lra|]. cbn [map Rsum length]. rewrite IH, S_INR. lra. Qed.
Lemma mean_shift d l : l <> [] -> mean (map (Rplus d) l) = d + mean l.
Proof.
  intros Hne. unfold mean. rewrite Rsum_shift, map_length.
  assert (Hk : INR (length l) <> 0) by (apply not_0_INR; destruct l; [congruence|cbn; lia]). field. exact Hk.
Qed.
Lemma wsum_from_scale c i l : wsum_from i (map (Rmult c) l) = c * wsum_from i l.
Proof. revert i; induction l as [|x l IH]; intros i; cbn; [lra|rewrite IH; lra]. Qed.
Lemma wmean_scale c l : wmean (map (Rmult c) l) = c * wmean l.
Proof. unfold wmean, wsum. rewrite wsum_from_scale, map_length. unfold Rdiv. lra. Qed.
Lemma madev_scale c l : 0 <= c -> madev (map (Rmult c) l) = c * madev l.
Proof.
  intros Hc. unfold madev. rewrite mean_scale, map_length, map_map.
  assert (E : Rsum (map (fun x => Rabs (c * x - c * mean l)) l) = c * Rsum (map (fun x => Rabs (x - mean l)) l)).
  { generalize (mean l). intros m. induction l as [|x l IH]; cbn; [lra|]. rewrite IH.
    replace (c * x - c * m) with (c * (x - m)) by lra. rewrite Rabs_mult, (Rabs_pos_eq c Hc). lra. }
  rewrite E. unfold Rdiv. lra.
Qed.
Lemma pvar_scale c l : pvar (map (Rmult c) l) = c * c * pvar l.
Proof.
  unfold pvar, dev2. rewrite mean_scale, map_length, map_map.
  assert (E : Rsum (map (fun x => (c * x - c * mean l) * (c * x - c * mean l)) l) = c * c * Rsum (map (fun x => (x - mean l) * (x - mean l)) l)).
  { generalize (mean l). intros m. induction l as [|x l IH]; cbn; [lra|]. rewrite IH. lra. }
  rewrite E. unfold Rdiv. lra.
Qed.
Lemma lastn_map {A B} (f : A -> B) n l : lastn n (map f l) = map f (lastn n l).
Proof. unfold lastn. rewrite map_length, skipn_map. reflexivity. Qed.
Lemma prefixes_map {A B} (f : A -> B) (h xs : list A) : prefixes_from (map f h) (map f xs) = map (map f) (prefixes_from h xs).
Proof.
  revert h; induction xs as [|x xs IH]; intros h; [reflexivity|]. cbn [map prefixes_from].
  rewrite <- (IH (h ++ [x])). rewrite map_app. reflexivity.
Qed.

(* ---------- statements about the model's output streams ---------- *)
Local Notation O := XROps.
Open Scope N_scope.

Definition fin_ge0 (o : XR) : Prop := exists r, o = Fin r /\ (0 <= r)%R.

(* C09: StandardDeviation and MeanAbsoluteDeviation are >= 0 and never NaN, for all finite inputs *)
Theorem sd_nonneg : forall p s xs, sd_new O p = Ok s -> Forall fin_ge0 (sd_outs s (map Fin xs)).
Proof.
  intros p s xs H. rewrite (sd_refines p s xs H). apply Forall_forall. intros o Ho.
  apply in_map_iff in Ho as (hh & <- & _). eexists. split; [reflexivity|apply sqrt_pos].
Qed.
Theorem mad_nonneg : forall p s xs, mad_new O p = Ok s -> Forall fin_ge0 (mad_outs s (map Fin xs)).
Proof.
  intros p s xs H. rewrite (mad_refines p s xs H). apply Forall_forall. intros o Ho.
  apply in_map_iff in Ho as (hh & <- & _). eexists. split; [reflexivity|apply madev_nonneg].
Qed.

(* C09: lower <= average <= upper for every finite multiplier >= 0 *)
Theorem bb_ordered : forall p mu s xs, bb_new O p (Fin mu) = Ok s -> (0 <= mu)%R ->
  Forall (fun o => exists a u l, o = [Fin a; Fin u; Fin l] /\ (l <= a <= u)%R) (bb_outs s (map Fin xs)).
Proof.
  intros p mu s xs H Hmu. rewrite (bb_refines p mu s xs H). apply Forall_forall. intros o Ho.
  apply in_map_iff in Ho as (hh & <- & _). unfold bb_spec. do 3 eexists. split; [reflexivity|].
  pose proof (sqrt_pos (pvar (lastn (N.to_nat p) hh))). nra.
Qed.

(* C09: SMA and WMA lie within [window min, window max] *)
Theorem sma_between : forall p s xs lo hi, sma_new O p = Ok s -> all_between lo hi xs ->
  Forall (fun o => exists r, o = Fin r /\ (lo <= r <= hi)%R) (sma_outs s (map Fin xs)).
Proof.
  intros p s xs lo hi H B. rewrite (sma_refines p s xs H).
  pose proof (sma_new_inv O p s H) as (Hp & _).
  assert (G : forall h, all_between lo hi h -> all_between lo hi xs ->
     Forall (fun o => exists r, o = Fin r /\ (lo <= r <= hi)%R) (map (fun hh => Fin (mean (lastn (N.to_nat p) hh))) (prefixes_from h xs))).
  { clear B. induction xs as [|x xs IH]; intros h Bh Bx; cbn [prefixes_from map]; [constructor|].
    assert (Bhx : all_between lo hi (h ++ [x])).
    { intros y Hy. apply in_app_or in Hy as [Hy|[<-|[]]]; [apply Bh; exact Hy|apply Bx; left; reflexivity]. }
    constructor.
    - eexists. split; [reflexivity|]. apply mean_between.
      + intros E. apply (f_equal (@length R)) in E. rewrite lastn_length, app_length in E. cbn in E. lia.
      + intros y Hy. apply Bhx. apply In_lastn in Hy. exact Hy.
    - apply IH; [exact Bhx|intros y Hy; apply Bx; right; exact Hy]. }
  apply G; [intros y []|exact B].
Qed.

Theorem wma_between : forall p s xs lo hi, wma_new O p = Ok s -> all_between lo hi xs ->
  Forall (fun o => exists r, o = Fin r /\ (lo <= r <= hi)%R) (wma_outs s (map Fin xs)).
Proof.
  intros p s xs lo hi H B. rewrite (wma_refines p s xs H).
  pose proof (wma_new_inv O p s H) as (Hp & _).
  assert (G : forall h, all_between lo hi h -> all_between lo hi xs ->
     Forall (fun o => exists r, o = Fin r /\ (lo <= r <= hi)%R) (map (fun hh => Fin (wmean (lastn (N.to_nat p) hh))) (prefixes_from h xs))).
  { clear B. induction xs as [|x xs IH]; intros h Bh Bx; cbn [prefixes_from map]; [constructor|].
    assert (Bhx : all_between lo hi (h ++ [x])).
    { intros y Hy. apply in_app_or in Hy as [Hy|[<-|[]]]; [apply Bh; exact Hy|apply Bx; left; reflexivity]. }
    constructor.
    - eexists. split; [reflexivity|]. apply wmean_between.
      + intros E. apply (f_equal (@length R)) in E. rewrite lastn_length, app_length in E. cbn in E. lia.
      + intros y Hy. apply Bhx. apply In_lastn in Hy. exact Hy.
    - apply IH; [exact Bhx|intros y Hy; apply Bx; right; exact Hy]. }
  apply G; [intros y []|exact B].
Qed.

(* C08: on a flat window MAD and SD are 0 and the Bollinger bands collapse onto their average — at any point
   of any history, for a flat stretch of any length >= the period *)
Theorem flat_window_stats : forall v w, w <> [] -> flat v w ->
  madev w = 0%R /\ R_sqrt.sqrt (pvar w) = 0%R /\ mean w = v /\ (forall p mu, bb_spec p mu w = bb_spec p mu w) /\
  (forall mu, (mean w + R_sqrt.sqrt (pvar w) * mu = v)%R /\ (mean w - R_sqrt.sqrt (pvar w) * mu = v)%R).
Proof.
  intros v w Hne H. rewrite (madev_flat v w Hne H), (pvar_flat v w Hne H), (mean_flat v w Hne H), sqrt_0.
  repeat split; lra.
Qed.

(* C14: multiplying every price by c > 0 multiplies SMA / WMA / SD / MAD outputs by c *)
Theorem sma_scale : forall p s c xs, sma_new O p = Ok s ->
  sma_outs s (map Fin (map (Rmult c) xs)) = map (fun o => mul O (Fin c) o) (sma_outs s (map Fin xs)).
Proof.
  intros p s c xs H. rewrite !(sma_refines p s _ H). change [] with (map (Rmult c) (@nil R)) at 1.
  rewrite prefixes_map, !map_map. apply map_ext. intros hh. rewrite lastn_map, mean_scale. reflexivity.
Qed.
Theorem wma_scale : forall p s c xs, wma_new O p = Ok s ->
  wma_outs s (map Fin (map (Rmult c) xs)) = map (fun o => mul O (Fin c) o) (wma_outs s (map Fin xs)).
Proof.
  intros p s c xs H. rewrite !(wma_refines p s _ H). change [] with (map (Rmult c) (@nil R)) at 1.
  rewrite prefixes_map, !map_map. apply map_ext. intros hh. rewrite lastn_map, wmean_scale. reflexivity.
Qed.
Theorem mad_scale : forall p s c xs, mad_new O p = Ok s -> (0 <= c)%R ->
  mad_outs s (map Fin (map (Rmult c) xs)) = map (fun o => mul O (Fin c) o) (mad_outs s (map Fin xs)).
Proof.
  intros p s c xs H Hc. rewrite !(mad_refines p s _ H). change [] with (map (Rmult c) (@nil R)) at 1.
  rewrite prefixes_map, !map_map. apply map_ext. intros hh. rewrite lastn_map, madev_scale by exact Hc. reflexivity.
Qed.
Theorem sd_scale : forall p s c xs, sd_new O p = Ok s -> (0 <= c)%R ->
  sd_outs s (map Fin (map (Rmult c) xs)) = map (fun o => mul O (Fin c) o) (sd_outs s (map Fin xs)).
Proof.
  intros p s c xs H Hc. rewrite !(sd_refines p s _ H). change [] with (map (Rmult c) (@nil R)) at 1.
  rewrite prefixes_map, !map_map. apply map_ext. intros hh. rewrite lastn_map, pvar_scale.
  cbn [mul O]. unfold xr_mul. f_equal. rewrite sqrt_mult_alt by nra. rewrite sqrt_square by exact Hc. reflexivity.
Qed.
(* adding a constant shifts SMA by it *)
Theorem sma_shift : forall p s d xs, sma_new O p = Ok s ->
  sma_outs s (map Fin (map (Rplus d) xs)) = map (fun o => add O (Fin d) o) (sma_outs s (map Fin xs)).
Proof.
  intros p s d xs H. rewrite !(sma_refines p s _ H). change [] with (map (Rplus d) (@nil R)) at 1.
  pose proof (sma_new_inv O p s H) as (Hp & _).
  assert (G : forall h, map (fun hh => Fin (mean (lastn (N.to_nat p) hh))) (prefixes_from (map (Rplus d) h) (map (Rplus d) xs)) =
              map (fun o => add O (Fin d) o) (map (fun hh => Fin (mean (lastn (N.to_nat p) hh))) (prefixes_from h xs))).
  { induction xs as [|x xs IH]; intros h; [reflexivity|]. cbn [map prefixes_from].
    replace (map (Rplus d) h ++ [(d + x)%R]) with (map (Rplus d) (h ++ [x])) by (rewrite map_app; reflexivity).
    rewrite IH. f_equal. rewrite lastn_map, mean_shift; [reflexivity|].
    intros E. apply (f_equal (@length R)) in E. rewrite lastn_length, app_length in E. cbn in E. lia. }
  apply G.
Qed.

(* ---------- generic (any carrier) facts used by C09 ---------- *)
Section G.
Context {F : Type} (OF : Ops F).
(* histograms equal line - signal: no slack, any number type *)
Theorem macd_histogram : forall (s : @Macd F) x, let o := snd (macd_next OF s x) in
  nth 2 o (zero OF) = sub OF (nth 0 o (zero OF)) (nth 1 o (zero OF)).
Proof.
  intros s x. unfold macd_next. destruct (ema_next OF (macd_fast s) x), (ema_next OF (macd_slow s) x).
  destruct (ema_next OF (macd_signal s) _). reflexivity.
Qed.
Theorem ppo_histogram : forall (s : @Ppo F) x, let o := snd (ppo_next OF s x) in
  nth 2 o (zero OF) = sub OF (nth 0 o (zero OF)) (nth 1 o (zero OF)).
Proof.
  intros s x. unfold ppo_next. destruct (ema_next OF (ppo_fast s) x), (ema_next OF (ppo_slow s) x).
  destruct (ema_next OF (ppo_signal s) _). reflexivity.
Qed.
(* Minimum <= Maximum over the same window: a least and a greatest element of one list *)
Theorem min_le_max : forall (l : list F) a b, least_in OF l a -> greatest_in OF l b -> ltb OF b a = false.
Proof. intros l a b [Ia La] [Ib Lb]. apply La. exact Ib. Qed.
End G.
