(* C07 — Bounded oscillators stay inside their documented range. Statements only (exact arithmetic: slack 0). *)
From Coq Require Import Reals.
From TA Require Import Base Model XR Proofs.Ring Proofs.XBase Proofs.Wiring Proofs.Osc Proofs.XEma Proofs.XFast Proofs.XRsi Proofs.XEr Proofs.XMfi.
Open Scope R_scope.

(* FastStochastic on finite prices: every output is a finite value in [0,100] (it is the formula on the extremes of
   exactly the last min(t,p) inputs, or the literal 50 when they coincide) *)
Theorem C07_fast_range : forall p s (xs : list R), fast_new XROps p = Ok s ->
  let outs := fast_outs XROps s (map Fin xs) in
  length outs = length xs /\
  forall k, (k < length xs)%nat -> exists r, nth k outs XNaN = Fin r /\ 0 <= r <= 100.
Proof.
  intros p s xs H outs. destruct (fast_char p s xs H) as [L C]. split; [exact L|].
  intros k Hk. destruct (C k Hk) as (mn & mx & _ & _ & _ & _ & R'). exact R'.
Qed.

(* RSI: a finite value in [0,100] whenever the denominator (sum of the two averages) is non-zero; NaN exactly otherwise *)
Theorem C07_rsi_range : forall p s xs, rsi_new XROps p = Ok s ->
  Forall (fun o => match o with Fin r => 0 <= r <= 100 | XNaN => True | _ => False end) (rsi_outs XROps s (map Fin xs)).
Proof. exact rsi_range. Qed.

(* SlowStochastic: EMA of values in [0,100] *)
Theorem C07_slow_range : forall p q s xs, slow_new XROps p q = Ok s ->
  Forall (fun o => exists r, o = Fin r /\ 0 <= r <= 100) (slow_outs XROps s (map Fin xs)).
Proof. exact slow_range. Qed.

(* EfficiencyRatio: whenever the path length (the reference denominator) is non-zero the ratio is a finite value in [0,1]
   (triangle inequality along the window path) *)
Theorem C07_er_range : forall p h x, plen (er_path p h x) <> 0 -> exists r, er_spec p h x = Fin r /\ 0 <= r <= 1.
Proof. exact er_range. Qed.

(* MoneyFlowIndex: whenever the window carries some money flow (non-zero denominator) the index is a finite value in [0,100] *)
Theorem C07_mfi_range : forall p b0 bs, let w := lastn p (flows (tpr b0) bs) in
  possum w + negsum w <> 0 -> exists r, mfi_spec p b0 bs = Fin r /\ 0 <= r <= 100.
Proof. exact mfi_range. Qed.

(* ---- binary64, NO slack: FastStochastic (scalar path) stays in [0,100] exactly — rounding to nearest is monotone and 0, 1, 100
        are floats — for every period and every stream of finite inputs free of -0.0 with magnitudes below 2^998 ---- *)
From Coq Require Import Reals List.
From TA Require Import FloatInst Proofs.Wiring Proofs.FloatErr Proofs.FloatFast.
Theorem C07_fast_binary64_range : forall p s xs, fast_new FOps p = Ok s -> Forall inb xs ->
  Forall (fun o => finF o /\ (0 <= FR o <= 100)%R) (fast_outs FOps s xs).
Proof. exact fast_float_range. Qed.

(* ---- binary64: EfficiencyRatio stays in [0, 1 + (3n+5) 2^-53] (inside the property's 1e-9 slack for every period up to 10^6)
        at every step whose volatility is not zero — + and - of floats have a purely relative rounding error, so the float
        volatility is at least (1 - 2^-53)^(2n) times the real path length, which bounds |first - x| by the triangle inequality.
        Periods <= 2^46, finite inputs of magnitude at most M <= 2^900; the output formula itself is C03_er_any_carrier ---- *)
From Coq Require Import Floats.
From Flocq Require Import Core.
From TA Require Import Proofs.FloatSma Proofs.GEr Proofs.FloatEr.
Theorem C07_er_binary64_range : forall p s xs M, er_new FOps p = Ok s -> (1 <= M)%R -> (M <= bpow radix2 900)%R ->
  (p <= 70368744177664)%N -> Forall (okin M) xs ->
  forall j, (j < length xs)%nat ->
    let o := nth j (res_outs (er_next FOps) s xs) 0%float in
    let v := ger_vol (N.to_nat p) (firstn j xs) (nth j xs 0%float) in
    finF v /\ (0 <= FR v)%R /\ (FR v = 0%R \/ (finF o /\ (0 <= FR o <= 1 + (3 * INR (N.to_nat p) + 5) * u)%R)).
Proof. exact er_float_range. Qed.
(* v is the volatility the code divides by (and o = |first - x| / v by C03_er_any_carrier) *)
Theorem C07_er_volatility_def : forall p h x, ger_vol p h x =
  (if (length h <? p)%nat then fst (er_vol_loop FOps (0%float, hd 0%float h) (h ++ x :: nil))
   else fst (er_vol_loop FOps (0%float, hd 0%float (Ring.lastn (S p) (h ++ x :: nil))) (tl (Ring.lastn (S p) (h ++ x :: nil))))).
Proof. reflexivity. Qed.

(* ---- binary64: RelativeStrengthIndex is NaN (0/0: both averages exactly zero, known finding K4's case) or a finite number in
        [0, 100 + 300 * 2^-53] — far inside the property's 1e-9 slack: the two averages are float EMAs of non-negative moves, hence
        finite and >= 0 (Proofs/FloatKc.v), the sum dominates the up-average by monotone rounding, and 100 * U rounds with a purely
        relative error (exact in the subnormal range). Streams of any length, periods < 2^45, finite inputs up to 2^900 ---- *)
From Flocq Require Import BinarySingleNaN PrimFloat.
From TA Require Import Proofs.Osc Proofs.FloatRsi.
Theorem C07_rsi_binary64_range : forall p s xs M, rsi_new FOps p = Ok s -> (p < 35184372088832)%N ->
  (1 <= M)%R -> (M <= bpow radix2 900)%R -> Forall (okin M) xs ->
  Forall (fun o => Prim2B o = B754_nan \/ (finF o /\ (0 <= FR o <= 100 + 300 * u)%R)) (rsi_outs FOps s xs).
Proof. exact rsi_float_range. Qed.

(* ---- binary64: SlowStochastic (scalar path) is a finite number in [0, 100 + 1700 (q+1) 2^-53] (inside the 1e-9 slack for every
        smoothing period q <= 5000): the float EMA of FastStochastic values that lie in [0,100] exactly; >= 0 with no slack ---- *)
From TA Require Import Proofs.FloatSlow.
Theorem C07_slow_binary64_range : forall p q s xs, slow_new FOps p q = Ok s -> (q < 35184372088832)%N -> Forall inb xs ->
  Forall (fun o => finF o /\ (0 <= FR o <= 100 + 1700 * (IZR (Z.of_N q) + 1) * u)%R) (slow_outs FOps s xs).
Proof. exact slow_float_range. Qed.
(* the bar paths (finite prices free of -0.0, low <= close <= high): FastStochastic in [0,100] exactly, SlowStochastic as above *)
Theorem C07_fast_bar_binary64_range : forall p s bars, fast_new FOps p = Ok s -> Forall inbar bars ->
  Forall (fun o => finF o /\ (0 <= FR o <= 100)%R) (fast_bar_outs FOps s bars).
Proof. exact fast_bar_float_range. Qed.
Theorem C07_slow_bar_binary64_range : forall p q s bars, slow_new FOps p q = Ok s -> (q < 35184372088832)%N -> Forall inbar bars ->
  Forall (fun o => finF o /\ (0 <= FR o <= 100 + 1700 * (IZR (Z.of_N q) + 1) * u)%R) (slow_bar_outs FOps s bars).
Proof. exact slow_bar_float_range. Qed.
Theorem C07_inbar_def : forall b, inbar b <->
  (inb (b_high b) /\ inb (b_low b) /\ finF (b_close b) /\ (Rabs (FR (b_close b)) <= BIG / 4)%R /\ (FR (b_low b) <= FR (b_close b) <= FR (b_high b))%R).
Proof. intros. reflexivity. Qed.
