# C11 — Constructors reject exactly period 0; accessors, Display, Default are faithful
import itertools
from props.util import *

rule = ("constructor probes: single-period constructors over periods 0..=64 exhaustively plus a seeded sample up to 4096 (quick) / "
        "0..=4096 exhaustively (thorough); all tuples over 0..=8 (quick) / 0..=24 (thorough) for the two- and three-period ones; boundary "
        "periods 2^31, 2^32, 2^53+1, usize::MAX-1, usize::MAX for the indicators that allocate no window; multipliers incl. 0, negative, "
        "NaN, inf, huge; each successful construction is probed (Display, period(), multiplier(), Debug), then fed and reset and probed "
        "again; Default::default() is compared with new(documented defaults) through probes and serialized state. Non-trivial: distinct "
        "constructor argument tuple")
assumptions = ["Rust's Display for f64 is emulated in the driver (lib/common.py:rust_fmt) to check the rendered multiplier"]

ALLOC_FREE = ["EMA", "ATR", "RSI", "MACD", "PPO", "KC"]
BOUNDARY = [2 ** 31, 2 ** 32, 2 ** 53 + 1, 2 ** 64 - 2, 2 ** 64 - 1]
MULTS = [2.0, 0.0, -0.0, -1.5, 3.0, 1e21, 1e-7, 0.1, float("nan"), float("inf"), float("-inf"), 123456.789]
DEFAULTS = {"SMA": (9,), "EMA": (9,), "WMA": (9,), "SD": (9,), "MAD": (9,), "ROC": (9,), "RSI": (14,), "ATR": (14,), "ER": (14,),
            "MFI": (14,), "MIN": (14,), "MAX": (14,), "FAST": (14,), "SLOW": (14, 3), "MACD": (12, 26, 9), "PPO": (12, 26, 9),
            "CCI": (20,), "BB": (9, 2.0), "KC": (10, 2.0), "CE": (22, 3.0), "TR": (), "OBV": ()}


def gen_cases(ctx):
    r = ctx.rng
    cases = []
    k = 0

    def add(ind, pr, life=True, dump=True):
        nonlocal k
        ops = [new_op(0, ind, pr), ("d", 0)]
        if life and max(pr[:3]) <= 64:
            ops += feed(r, ind, r.randint(1, 6)) + [("d", 0), ("r", 0), ("d", 0)] + feed(r, ind, 2) + [("s", 0), ("d", 0)]
        cases.append(Case("n%d_%s" % (k, ind), ops, dump=(0,) if dump and max(pr[:3]) <= 64 else (),
                          meta={"ind": ind, "args": list(pr[:3]), "mult": pr[3]}))
        k += 1
    for ind in ALL:
        n = nper(ind)
        if n == 0:
            add(ind, (0, 0, 0, 0.0))
            add(ind, (5, 7, 9, 0.0))   # arguments are ignored
        elif n == 1:
            ps = list(range(0, 65)) + (list(range(65, 4097)) if ctx.thorough else sorted(r.sample(range(65, 4097), 12) + [255, 256, 1023, 1024, 4095, 4096]))
            if ind in ("MAD", "CCI") and not ctx.thorough:
                ps = [p for p in ps if p <= 1024]
            ms = MULTS if ind in HAS_MULT else [0.0]
            for i, p in enumerate(ps):
                add(ind, (p, 0, 0, ms[i % len(ms)]), life=(p <= 16))
            if ind in HAS_MULT:
                for m in MULTS:
                    add(ind, (3, 0, 0, m))
                    add(ind, (0, 0, 0, m))
        else:
            top = 8 if not ctx.thorough else 24
            rng_ = list(range(0, top + 1))
            tuples = list(itertools.product(rng_, repeat=n))
            if len(tuples) > (400 if not ctx.thorough else 4000):
                keep = [t for t in tuples if 0 in t]
                keep = r.sample(keep, min(len(keep), 200 if not ctx.thorough else 2000))
                tuples = keep + r.sample(tuples, 200 if not ctx.thorough else 2000)
            for t in tuples:
                add(ind, tuple(t) + (0,) * (3 - n) + (0.0,), life=(max(t) <= 4 and r.random() < 0.3))
        if ind in ALLOC_FREE:
            for bnd in BOUNDARY:
                if n == 1:
                    add(ind, (bnd, 0, 0, 2.0 if ind in HAS_MULT else 0.0), life=False, dump=False)
                else:
                    add(ind, (bnd, 3, 2 ** 64 - 1, 0.0), life=False, dump=False)
                    add(ind, (0, bnd, 1, 0.0), life=False, dump=False)
    # SLOW's second period is allocation-free
    for bnd in BOUNDARY:
        add("SLOW", (3, bnd, 0, 0.0), life=False, dump=False)
    # Default
    for ind in ALL:
        dflt = DEFAULTS[ind]
        per = [x for x in dflt if isinstance(x, int)]
        m = [x for x in dflt if isinstance(x, float)]
        pr = tuple(per + [0] * (3 - len(per))) + ((m[0] if m else 0.0),)
        ops = [("def", 0, ind), ("d", 0), new_op(1, ind, pr), ("d", 1)]
        for o in feed(r, ind, 5):
            ops += [o, (o[0], 1) + tuple(o[2:])]
        cases.append(Case("default_%s" % ind, ops, dump=(0, 1), meta={"ind": ind, "args": list(pr[:3]), "mult": pr[3], "default": True}))
    return cases


def nontrivial(c):
    return True


def check_impl(ctx, cases):
    out = []
    kinds = {"ok": 0, "err": 0}
    names = {v: k for k, v in __import__("common").display_names().items()}
    for c in cases:
        ind = c.meta["ind"]
        if c.meta.get("default"):
            a, b = outs_of(c, 0), outs_of(c, 1)
            pa = [ob for o, ob in zip(c.ops, c.obs) if o[0] == "d"]
            if c.obs[0] != "ok" or len(pa) != 2 or pa[0] != pa[1] or [x[1] for x in a] != [x[1] for x in b] or c.images.get(0) != c.images.get(1):
                out.append(Violation("%s::default() does not behave as new(%s)" % (ind, DEFAULTS[ind]), case=c))
            continue
        args = c.meta["args"][:nper(ind)]
        ob = c.obs[0]
        want_err = any(a == 0 for a in args)
        if want_err:
            kinds["err"] += 1
            if ob != ("err", "InvalidParameter"):
                out.append(Violation("%s::new(%s) returned %s; the property requires Err(InvalidParameter)" % (ind, args, ob), case=c))
            continue
        kinds["ok"] += 1
        if ob != "ok":
            out.append(Violation("%s::new(%s) returned %s; the property requires Ok" % (ind, args, ob), case=c))
            continue
        # probes: Display = NAME(args[, mult]) ; period() = first period ; multiplier() = given
        for o, pb in zip(c.ops, c.obs):
            if o[0] != "d":
                continue
            if not (isinstance(pb, tuple) and pb[0] == "d"):
                out.append(Violation("%s::new(%s): probe failed: %s" % (ind, args, pb), case=c))
                break
            _, kind, dargs, mult, period = pb
            want_mult = None
            if ind in HAS_MULT:
                want_mult = bits(c.meta["mult"]) if c.meta["mult"] == c.meta["mult"] else 0x7ff8000000000000
            want_period = args[0] if ind not in ("TR", "SLOW", "MACD", "PPO", "OBV") else None
            if kind != KINDS[ind] or dargs != args or mult != want_mult or period != want_period:
                out.append(Violation("%s::new(%s, mult=%r): Display/period()/multiplier() report kind=%s args=%s mult=%s period=%s"
                                     % (ind, args, c.meta["mult"], kind, dargs, mult, period), case=c))
                break
        if len(out) > 10:
            break
    ctx.stats["constructor_outcomes_expected"] = kinds
    return out


from common import KIND as KINDS  # noqa
