(* Known finding K7, part (b), as a theorem about the model: on an ORDINARY long stream — the saw-tooth a + (b-a) * ((k mod 97)/97)
   in the price band [1e6, 1e9] — the binary64 WeightedMovingAverage of period 2 leaves tau(t) * maxmag of the exact weighted mean of
   its window at the 27th checkpoint (t = 94 500) and not before.  (The bit-exact agreement of the implementation with the model on this
   very stream is checked by C13's case k7b on every run.) *)
From Coq Require Import List NArith ZArith Floats Uint63 QArith.
From TA Require Import Base Model Generic FloatInst XQ Run Run2 Gen.
Import ListNotations.

(* first checkpoint at which the MODEL's own float output leaves the tolerance of the from-scratch exact value of the window *)
Definition model_t2_first_fail (kd : Kind) (p : @Params float) (g : gen) (wlen : nat) (mag : float) : N :=
  match new FOps kd p with
  | Ok s0 =>
      let '(_, cps, ok) := g_run (N.to_nat (g_len g)) g (g_init g) s0 0%N (Nat.pred (N.to_nat (g_every g))) h0 [] wlen [] in
      if negb ok then 4000000%N else
      (fix go (j : N) (a : list (N * list float * list ginput)) : N :=
         match a with
         | (k, out, win) :: a =>
             let '(est, exact) := exact_on_window kd p win in
             let M := qabs_of (f2xq mag) in
             if tol_gen 1000%Q kd (f2xq (pm p)) k M (map f2xq out) exact est win then go (j + 1)%N a else j
         | [] => 0%N end) 1%N cps
  | _ => 4000000%N end.

Definition k7b_gen : gen := mkGen 5 12345 140000 1e6 1e9 3500 0.

Lemma k7b_wma_leaves_tau : model_t2_first_fail KWma (Pm 2 0 0 0) k7b_gen 3 1e9 = 27%N.
Proof. vm_compute. reflexivity. Qed.

(* ... while SimpleMovingAverage on the same stream stays within tau at all 40 checkpoints (as C01_sma_binary64_within_tau predicts) *)
Lemma k7b_sma_within_tau : model_t2_first_fail KSma (Pm 2 0 0 0) k7b_gen 3 1e9 = 0%N.
Proof. vm_compute. reflexivity. Qed.
