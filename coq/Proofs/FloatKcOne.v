(* C10 on binary64, KeltnerChannel fed one-price bars (open = o, high = low = close = x): the bar path differs from the scalar path on x
   ONLY through the middle line, which is an EMA of the typical price (x + x + x) / 3 instead of x. The ATR term is the same float bit
   for bit (FloatOnePrice), (x + x + x) / 3 is within 8 u M of x, and the two float EMAs stay within
   17 (n+1) u M + 17 (n+1) u (2M) + 8 u M of each other for streams of ANY length (saturating EMA bound twice + the real EMA is
   1-Lipschitz in its inputs). *)
From Coq Require Import Reals Lra Lia ZArith List Floats.
From Flocq Require Import Core.
From TA Require Import Base Model FloatInst Proofs.Prims Proofs.WF Proofs.XBase Proofs.Wiring Proofs.XEma Proofs.XCov Proofs.OnePrice
  Proofs.FloatErr Proofs.FloatSma Proofs.FloatEma Proofs.FloatSd Proofs.FloatFast Proofs.FloatMad Proofs.FloatAtr Proofs.FloatMacd
  Proofs.FloatKc Proofs.FloatOnePrice.
Import ListNotations.
Open Scope R_scope.
Local Notation O := FOps.
Local Notation float := PrimFloat.float.

(* the typical price of a one-price bar: finite, bounded by 2M, within 8uM of the price *)
Lemma typical_one_close M (o v x : float) : 1 <= M -> 4 * M <= bpow radix2 900 -> okin M x ->
  okin (2 * M) (typical O (one_bar o v x)) /\ Rabs (FR (typical O (one_bar o v x)) - FR x) <= 8 * u * M.
Proof.
  intros HM1 HM2 [Fx Hx]. pose proof u_pos as Hu0. pose proof u_le as Hu1. pose proof eta_pos as He0. pose proof eta_le_u as Heu. pose proof BIG_ge as HBg.
  assert (HMB : 8 * M <= BIG).
  { unfold BIG. apply Rle_trans with (2 * bpow radix2 900); [lra|]. change 2 with (bpow radix2 1) at 1. rewrite <- bpow_plus. apply bpow_le. lia. }
  assert (HeM : eta <= u * M) by (apply Rle_trans with (u * 1); [lra|apply Rmult_le_compat_l; lra]).
  assert (HuM : u * M <= / 1000 * M) by (apply Rmult_le_compat_r; lra).
  assert (HuuM : u * (u * M) <= / 1000 * (u * M)) by (apply Rmult_le_compat_r; [apply Rmult_le_pos; lra|lra]).
  unfold typical, one_bar. cbn [b_close b_high b_low add div three O].
  set (X := FR x) in *. assert (HX : - M <= X <= M) by (apply abs_bounds_R; exact Hx).
  (* s1 = x + x *)
  destruct (fadd_err x x Fx Fx) as (F1 & e1 & t1 & He1 & Ht1 & R1); [fold X; eapply Rle_trans; [apply Rabs_triang|]; lra|]. fold X in R1.
  apply abs_bounds_R in He1. apply abs_bounds_R in Ht1.
  set (S1 := FR (x + x)%float) in *.
  assert (D1 : Rabs (S1 - 2 * X) <= 3 * (u * M)).
  { rewrite R1. replace ((X + X) * (1 + e1) + t1 - 2 * X) with (2 * X * e1 + t1) by ring.
    apply Rabs_le. assert (- (M * u) <= X * e1 <= M * u) by (split; nra). lra. }
  apply abs_bounds_R in D1.
  (* s2 = s1 + x *)
  destruct (fadd_err (x + x)%float x F1 Fx) as (F2 & e2 & t2 & He2 & Ht2 & R2); [fold S1 X; apply Rabs_le; lra|]. fold S1 X in R2.
  apply abs_bounds_R in He2. apply abs_bounds_R in Ht2.
  set (S2 := FR (x + x + x)%float) in *.
  assert (D2 : Rabs (S2 - 3 * X) <= 8 * (u * M)).
  { rewrite R2. replace ((S1 + X) * (1 + e2) + t2 - 3 * X) with ((S1 - 2 * X) + (S1 + X) * e2 + t2) by ring.
    apply Rabs_le. assert (- ((3 * M + 3 * (u * M)) * u) <= (S1 + X) * e2 <= (3 * M + 3 * (u * M)) * u) by (split; nra).
    replace ((3 * M + 3 * (u * M)) * u) with (3 * (u * M) + 3 * (u * (u * M))) in H by ring. lra. }
  apply abs_bounds_R in D2.
  (* q = s2 / 3 *)
  change 3%float with (f_ofN 3).
  destruct (fdiv_count (x + x + x)%float 3 F2 ltac:(lia)) as (F3 & e3 & t3 & He3 & Ht3 & R3); [fold S2; apply Rabs_le; lra|]. fold S2 in R3.
  change (IZR (Z.of_N 3)) with 3 in R3. apply abs_bounds_R in He3. apply abs_bounds_R in Ht3.
  assert (D3 : Rabs (FR ((x + x + x) / f_ofN 3)%float - X) <= 8 * u * M).
  { rewrite R3. replace (S2 / 3 * (1 + e3) + t3 - X) with ((S2 - 3 * X) / 3 + S2 / 3 * e3 + t3) by field.
    apply Rabs_le. assert (- ((M + 3 * (u * M)) * u) <= S2 / 3 * e3 <= (M + 3 * (u * M)) * u) by (split; nra).
    replace ((M + 3 * (u * M)) * u) with (u * M + 3 * (u * (u * M))) in H by ring. lra. }
  split; [split; [exact F3|]|exact D3].
  apply abs_bounds_R in D3. apply Rabs_le. assert (8 * u * M <= M) by nra. lra.
Qed.

Theorem kc_one_price_float : forall p mu k xs (o v : float) M, kc_new O p mu = Ok k -> (p < 35184372088832)%N ->
  1 <= M -> 4 * M <= bpow radix2 900 -> Forall (okin M) xs ->
  let bar := kc_bar_outs O k (map (fun x => one_bar o v x) xs) in
  let sca := kc_outs O k xs in
  length bar = length xs /\ length sca = length xs /\
  forall j, (j < length xs)%nat -> exists ab a w,
    nth j bar [] = bands O mu ab w /\ nth j sca [] = bands O mu a w /\ finF ab /\ finF a /\
    Rabs (FR ab - FR a) <= ebound p M + ebound p (2 * M) + 8 * u * M.
Proof.
  intros p mu k xs o v M H Hp HM1 HM2 Hxs bar sca. unfold kc_new in H.
  destruct (atr_new O p) as [a| |] eqn:Ea; cbn [bind] in H; try discriminate.
  destruct (ema_new O p) as [e| |] eqn:Ee; cbn [bind] in H; try discriminate. injection H as <-.
  subst bar sca. rewrite kc_bar_wiring, kc_wiring.
  assert (Hfin : Forall finF xs) by (eapply Forall_impl; [|exact Hxs]; intros z [Fz _]; exact Fz).
  rewrite (atr_one_stream_binary64 p a xs o v Ea Hfin).
  set (tps := map (typical O) (map (fun x => one_bar o v x) xs)).
  assert (Ltp : length tps = length xs) by (unfold tps; rewrite !map_length; reflexivity).
  assert (Htp : forall j, (j < length xs)%nat -> okin (2 * M) (nth j tps 0%float) /\ Rabs (FR (nth j tps 0%float) - FR (nth j xs 0%float)) <= 8 * u * M).
  { intros j Hj. unfold tps. rewrite map_map.
    rewrite (nth_indep _ 0%float (typical O (one_bar o v 0%float))) by (rewrite map_length; exact Hj).
    rewrite (map_nth (fun x => typical O (one_bar o v x))).
    apply typical_one_close; [exact HM1|exact HM2|]. apply (Forall_nth_all _ _ 0%float Hxs). exact Hj. }
  assert (Ftp : Forall (okin (2 * M)) tps).
  { apply (Forall_of_nth _ _ 0%float). intros j Hj. apply Htp. lia. }
  assert (HMl : bpow radix2 (-960) <= M) by (apply Rle_trans with 1; [change 1 with (bpow radix2 0); apply bpow_le; lia|exact HM1]).
  assert (HMu : 2 * M <= bpow radix2 990) by (apply Rle_trans with (bpow radix2 900); [lra|apply bpow_le; lia]).
  assert (Hp' : (p < 140737488355328)%N) by lia.
  destruct (ema_float_uniform p e xs M Ee Hp' HMl ltac:(lra) Hxs) as [Ls Hs].
  destruct (ema_float_uniform p e tps (2 * M) Ee Hp' ltac:(lra) HMu Ftp) as [Lb Hb].
  assert (La : length (atr_outs O a xs) = length xs).
  { destruct (atr_float_nonneg p a xs M Ea Hp HM1 ltac:(apply Rle_trans with (2 * bpow radix2 900); [lra|change 2 with (bpow radix2 1) at 1; rewrite <- bpow_plus; apply bpow_le; lia]) Hxs) as [La _]. exact La. }
  split; [rewrite map2_length'; [rewrite Lb; exact Ltp|rewrite La, Lb, Ltp; reflexivity]|].
  split; [rewrite map2_length'; [exact Ls|rewrite La, Ls; reflexivity]|].
  intros j Hj.
  exists (nth j (ema_outs O e tps) 0%float), (nth j (ema_outs O e xs) 0%float), (nth j (atr_outs O a xs) 0%float).
  split; [apply map2_nth'; [rewrite La, Lb, Ltp; reflexivity|rewrite Lb, Ltp; exact Hj]|].
  split; [apply map2_nth'; [rewrite La, Ls; reflexivity|rewrite Ls; exact Hj]|].
  destruct (Hs j Hj) as [Fs Es]. destruct (Hb j ltac:(rewrite Ltp; exact Hj)) as [Fb Eb].
  split; [exact Fb|]. split; [exact Fs|].
  assert (p <> 0)%N as Hp0 by (intros ->; unfold ema_new in Ee; cbn in Ee; discriminate).
  pose proof (kreal_range p Hp0) as Hal. pose proof u_pos as Hu0.
  assert (Lip : Rabs (nth j (ema_stream (kreal p) (map FR tps)) 0 - nth j (ema_stream (kreal p) (map FR xs)) 0) <= 8 * u * M).
  { apply ema_stream_lip; [exact Hal|nra|rewrite !map_length; exact Ltp| |rewrite map_length, Ltp; exact Hj].
    intros i Hi. rewrite map_length, Ltp in Hi.
    change 0 with (FR 0%float). rewrite !map_nth. apply Htp. exact Hi. }
  fold (ebound p M) in Es. fold (ebound p (2 * M)) in Eb.
  apply abs_bounds_R in Es. apply abs_bounds_R in Eb. apply abs_bounds_R in Lip. apply Rabs_le. lra.
Qed.
