(* Forgetting for the remaining windowed indicators: Maximum (any total order), FastStochastic, CCI (last n inputs),
   RateOfChange, EfficiencyRatio, MoneyFlowIndex (last n+1). Each is a corollary of the exact refinement. *)
From Coq Require Import Reals Lra Lia List.
From TA Require Import Base Model XR Proofs.Prims Proofs.WF Proofs.Ring Proofs.XBase Proofs.MinMaxProofs Proofs.ForgetProofs
  Proofs.Wiring Proofs.XFast Proofs.XRoc Proofs.XEr Proofs.XMfi Proofs.XBands Proofs.XCci.
Import ListNotations.
Local Notation O := XROps.

Lemma lastn_S_snoc {A} p (h : list A) x : lastn (S p) (h ++ [x]) = lastn p h ++ [x].
Proof.
  unfold lastn. rewrite app_length. cbn [length]. replace (length h + 1 - S p)%nat with (length h - p)%nat by lia.
  rewrite skipn_app. replace (length h - p - length h)%nat with 0%nat by lia. reflexivity.
Qed.

Lemma last_cons_ne {A} (a : A) l d : l <> [] -> last (a :: l) d = last l d.
Proof. destruct l; [congruence|reflexivity]. Qed.

Lemma lastn_nil_inv {A} p (l : list A) : lastn p l = [] -> l <> [] -> p = 0%nat.
Proof.
  intros E Hl. apply (f_equal (@length A)) in E. rewrite lastn_length in E. cbn in E.
  destruct l; [congruence|]. cbn in E. lia.
Qed.

(* ---- Maximum, any strict total order (dual of min_forgets) ---- *)
Theorem max_forgets : forall (F : Type) (OF : Ops F) (P : F -> Prop) (p : N) (h1 h2 : list F),
  order_on (fun a b => ltb OF b a) (ninf OF) P -> (0 < p)%N -> (p <= ALLOC_MAX)%N -> Forall P h1 -> Forall P h2 ->
  h1 <> [] -> h2 <> [] -> lastn (N.to_nat p) h1 = lastn (N.to_nat p) h2 ->
  last (max_outs OF (mkMax p 0 0 (repeat (ninf OF) (N.to_nat p))) h1) (ninf OF) =
  last (max_outs OF (mkMax p 0 0 (repeat (ninf OF) (N.to_nat p))) h2) (ninf OF).
Proof.
  intros F OF P p h1 h2 OR H1 H2 P1 P2 N1 N2 E. rewrite !max_outs_flip.
  exact (min_forgets F (flipO OF) P p h1 h2 OR H1 H2 P1 P2 N1 N2 E).
Qed.

(* ---- RateOfChange: last n+1 ---- *)
Lemma roc_stream_ne p h xs : xs <> [] -> roc_spec_stream p h xs <> [].
Proof. destruct xs; [congruence|discriminate]. Qed.
Lemma roc_stream_last p : forall xs h x d, last (roc_spec_stream p h (xs ++ [x])) d = roc_spec p (h ++ xs) x.
Proof.
  induction xs as [|y ys IH]; intros h x d; cbn [app roc_spec_stream].
  - rewrite app_nil_r. reflexivity.
  - rewrite last_cons_ne by (apply roc_stream_ne; destruct ys; discriminate). rewrite IH, <- app_assoc. reflexivity.
Qed.

Theorem roc_forgets : forall p s (h1 h2 : list R), roc_new O p = Ok s -> h1 <> [] -> h2 <> [] ->
  lastn (S (N.to_nat p)) h1 = lastn (S (N.to_nat p)) h2 ->
  last (roc_outs s (map Fin h1)) XNaN = last (roc_outs s (map Fin h2)) XNaN.
Proof.
  intros p s h1 h2 H N1 N2 E. rewrite !(roc_refines p s _ H).
  destruct (exists_last N1) as (a1 & x1 & ->). destruct (exists_last N2) as (a2 & x2 & ->).
  rewrite !roc_stream_last. cbn [app]. rewrite !lastn_S_snoc in E. apply app_inj_tail in E as [Ew ->].
  unfold roc_spec, roc_ref. rewrite Ew. reflexivity.
Qed.

(* ---- EfficiencyRatio: last n+1 ---- *)
Lemma er_stream_ne p h xs : xs <> [] -> er_spec_stream p h xs <> [].
Proof. destruct xs; [congruence|discriminate]. Qed.
Lemma er_stream_last p : forall xs h x d, last (er_spec_stream p h (xs ++ [x])) d = er_spec p (h ++ xs) x.
Proof.
  induction xs as [|y ys IH]; intros h x d; cbn [app er_spec_stream].
  - rewrite app_nil_r. reflexivity.
  - rewrite last_cons_ne by (apply er_stream_ne; destruct ys; discriminate). rewrite IH, <- app_assoc. reflexivity.
Qed.

Theorem er_forgets : forall p s (h1 h2 : list R), er_new O p = Ok s -> h1 <> [] -> h2 <> [] ->
  lastn (S (N.to_nat p)) h1 = lastn (S (N.to_nat p)) h2 ->
  last (er_outs s (map Fin h1)) XNaN = last (er_outs s (map Fin h2)) XNaN.
Proof.
  intros p s h1 h2 H N1 N2 E. rewrite !(er_refines p s _ H).
  pose proof (er_new_inv O p s H) as (Hp0 & _).
  destruct (exists_last N1) as (a1 & x1 & ->). destruct (exists_last N2) as (a2 & x2 & ->).
  rewrite !er_stream_last. cbn [app]. pose proof E as E'. rewrite !lastn_S_snoc in E'. apply app_inj_tail in E' as [Ew ->].
  unfold er_spec, er_path.
  destruct a1 as [|b1 a1], a2 as [|b2 a2]; try reflexivity.
  - exfalso. change (lastn (N.to_nat p) []) with (@nil R) in Ew. symmetry in Ew. apply lastn_nil_inv in Ew; [lia|discriminate].
  - exfalso. change (lastn (N.to_nat p) []) with (@nil R) in Ew. apply lastn_nil_inv in Ew; [lia|discriminate].
  - rewrite E. reflexivity.
Qed.

(* ---- CCI: last n typical prices ---- *)
Lemma cci_stream_ne p h xs : xs <> [] -> cci_spec_stream p h xs <> [].
Proof. destruct xs; [congruence|discriminate]. Qed.
Lemma cci_stream_last p : forall xs h x d, last (cci_spec_stream p h (xs ++ [x])) d = cci_spec p (h ++ xs) x.
Proof.
  induction xs as [|y ys IH]; intros h x d; cbn [app cci_spec_stream].
  - rewrite app_nil_r. reflexivity.
  - rewrite last_cons_ne by (apply cci_stream_ne; destruct ys; discriminate). rewrite IH, <- app_assoc. reflexivity.
Qed.

Theorem cci_forgets : forall p s (b1 b2 : list rbar), cci_new O p = Ok s -> b1 <> [] -> b2 <> [] ->
  lastn (N.to_nat p) (map tp3 b1) = lastn (N.to_nat p) (map tp3 b2) ->
  last (cci_bar_outs s (map mkb b1)) XNaN = last (cci_bar_outs s (map mkb b2)) XNaN.
Proof.
  intros p s b1 b2 H N1 N2 E. rewrite !(cci_refines p s _ H).
  assert (Hp : (1 <= N.to_nat p)%nat).
  { unfold cci_new in H. destruct (sma_new O p) as [sm| |] eqn:Es; cbn in H; try discriminate.
    pose proof (sma_new_inv O p sm Es) as (A & _). lia. }
  destruct (exists_last N1) as (a1 & x1 & ->). destruct (exists_last N2) as (a2 & x2 & ->).
  rewrite !map_app in *. cbn [map] in *. rewrite !cci_stream_last. cbn [app]. unfold cci_spec.
  destruct (N.to_nat p) as [|q]; [lia|]. rewrite !lastn_S_snoc in *. apply app_inj_tail in E as [Ew Ex].
  rewrite Ew, Ex. reflexivity.
Qed.

(* ---- FastStochastic (scalar path): last n ---- *)
Lemma last_nth {A} (l : list A) d : l <> [] -> last l d = nth (length l - 1) l d.
Proof.
  intros Hl. destruct (exists_last Hl) as (a & x & ->). rewrite last_last, app_length. cbn [length].
  replace (length a + 1 - 1)%nat with (length a) by lia. rewrite app_nth2 by lia.
  replace (length a - length a)%nat with 0%nat by lia. reflexivity.
Qed.

Lemma last_lastn {A} p (l : list A) d : (1 <= p)%nat -> l <> [] -> last (lastn p l) d = last l d.
Proof.
  intros Hp Hl. destruct (exists_last Hl) as (a & x & ->). destruct p as [|q]; [lia|].
  rewrite lastn_S_snoc, !last_last. reflexivity.
Qed.

Theorem fast_forgets : forall p s (h1 h2 : list R), fast_new O p = Ok s -> h1 <> [] -> h2 <> [] ->
  lastn (N.to_nat p) h1 = lastn (N.to_nat p) h2 ->
  last (fast_outs O s (map Fin h1)) XNaN = last (fast_outs O s (map Fin h2)) XNaN.
Proof.
  intros p s h1 h2 H N1 N2 E.
  assert (Hp : (1 <= N.to_nat p)%nat).
  { unfold fast_new in H. destruct (min_new O p) as [mn| |] eqn:Em; cbn in H; try discriminate.
    pose proof (min_new_inv O p mn Em) as (A & _). lia. }
  destruct (fast_char p s h1 H) as [L1 C1]. destruct (fast_char p s h2 H) as [L2 C2].
  assert (K1 : (length h1 - 1 < length h1)%nat) by (destruct h1; [congruence|cbn; lia]).
  assert (K2 : (length h2 - 1 < length h2)%nat) by (destruct h2; [congruence|cbn; lia]).
  specialize (C1 _ K1). specialize (C2 _ K2). cbv zeta in C1, C2.
  replace (S (length h1 - 1)) with (length h1) in C1 by lia. replace (S (length h2 - 1)) with (length h2) in C2 by lia.
  rewrite firstn_all in C1, C2. rewrite <- E in C2.
  destruct C1 as (mn1 & mx1 & B1 & I1 & J1 & V1 & _). destruct C2 as (mn2 & mx2 & B2 & I2 & J2 & V2 & _).
  rewrite !last_nth by (intros Z; apply (f_equal (@length XR)) in Z; cbn in Z; lia).
  rewrite L1, L2, V1, V2.
  assert (Emn : mn1 = mn2) by (apply Rle_antisym; [apply (proj1 (B1 _ I2))|apply (proj1 (B2 _ I1))]).
  assert (Emx : mx1 = mx2) by (apply Rle_antisym; [apply (proj2 (B2 _ J1))|apply (proj2 (B1 _ J2))]).
  subst mn2 mx2.
  rewrite <- !(last_nth _ 0%R) by assumption.
  rewrite <- (last_lastn (N.to_nat p) h1 0%R Hp N1), <- (last_lastn (N.to_nat p) h2 0%R Hp N2), E. reflexivity.
Qed.

(* ---- MoneyFlowIndex: last n+1 bars ---- *)
Lemma flows_app prev a b : flows prev (a ++ b) = flows prev a ++ flows (last (map tpr a) prev) b.
Proof.
  revert prev; induction a as [|x a IH]; intros prev; [reflexivity|].
  cbn [app flows map]. rewrite IH. f_equal. f_equal. f_equal.
  destruct a as [|y a]; [reflexivity|]. cbn [map].
  change (last (tpr x :: tpr y :: map tpr a) prev) with (last (tpr y :: map tpr a) prev).
  apply last_default'. discriminate.
Qed.

(* the last p flows are the flows along the last p+1 bars *)
Lemma flows_window p b0 bs :
  lastn p (flows (tpr b0) bs) =
  match lastn (S p) (b0 :: bs) with [] => [] | c :: cs => flows (tpr c) cs end.
Proof.
  destruct (Nat.le_gt_cases (length bs) p) as [Hle|Hgt].
  - rewrite (lastn_all (S p) (b0 :: bs)) by (cbn; lia). apply lastn_all. rewrite flows_length. exact Hle.
  - (* bs = a ++ c :: cs with |cs| = p *)
    set (k := (length bs - p)%nat).
    assert (Hk : (1 <= k <= length bs)%nat) by (unfold k; lia).
    rewrite <- (firstn_skipn (k - 1) bs) at 1 2.
    destruct (skipn (k - 1) bs) as [|c cs] eqn:Esk.
    { apply (f_equal (@length mbar)) in Esk. rewrite skipn_length in Esk. cbn in Esk. lia. }
    assert (Lcs : length cs = p).
    { apply (f_equal (@length mbar)) in Esk. rewrite skipn_length in Esk. cbn in Esk. unfold k in *. lia. }
    change (b0 :: firstn (k - 1) bs ++ c :: cs) with ((b0 :: firstn (k - 1) bs) ++ c :: cs).
    rewrite (lastn_app_r (S p) _ (c :: cs)) by (cbn; lia). rewrite (lastn_all (S p) (c :: cs)) by (cbn; lia).
    replace (firstn (k - 1) bs ++ c :: cs) with ((firstn (k - 1) bs ++ [c]) ++ cs) by (rewrite <- app_assoc; reflexivity).
    rewrite flows_app. rewrite lastn_app_r by (rewrite flows_length; lia).
    rewrite lastn_all by (rewrite flows_length; lia).
    rewrite map_app. cbn [map]. rewrite last_last. reflexivity.
Qed.

Lemma mfi_stream_ne p b0 d t : t <> [] -> mfi_spec_stream p b0 d t <> [].
Proof. destruct t; [congruence|discriminate]. Qed.
Lemma mfi_stream_last p b0 : forall t done b d,
  last (mfi_spec_stream p b0 done (t ++ [b])) d = mfi_spec p b0 (done ++ t ++ [b]).
Proof.
  induction t as [|y ys IH]; intros done b d; cbn [app mfi_spec_stream].
  - reflexivity.
  - rewrite last_cons_ne by (apply mfi_stream_ne; destruct ys; discriminate). rewrite IH, <- app_assoc. reflexivity.
Qed.

(* with at least two bars fed on both sides (the first output is the constant 50) *)
Theorem mfi_forgets : forall p s (B1 B2 : list mbar) c1 c2, mfi_new O p = Ok s ->
  Forall (fun b => (0 <= rawr b)%R) (B1 ++ [c1]) -> Forall (fun b => (0 <= rawr b)%R) (B2 ++ [c2]) ->
  B1 <> [] -> B2 <> [] ->
  lastn (S (N.to_nat p)) (B1 ++ [c1]) = lastn (S (N.to_nat p)) (B2 ++ [c2]) ->
  last (mfi_outs s (map mkm (B1 ++ [c1]))) XNaN = last (mfi_outs s (map mkm (B2 ++ [c2]))) XNaN.
Proof.
  intros p s B1 B2 c1 c2 H F1 F2 N1 N2 E.
  destruct B1 as [|a1 r1]; [congruence|]. destruct B2 as [|a2 r2]; [congruence|].
  cbn [app] in *. inversion F1 as [|? ? _ F1']; subst. inversion F2 as [|? ? _ F2']; subst.
  rewrite (mfi_refines p s a1 (r1 ++ [c1]) H F1'), (mfi_refines p s a2 (r2 ++ [c2]) H F2').
  rewrite !last_cons_ne by (apply mfi_stream_ne; destruct r1 + destruct r2; discriminate).
  rewrite !mfi_stream_last. cbn [app]. unfold mfi_spec. rewrite !flows_window, E. reflexivity.
Qed.
