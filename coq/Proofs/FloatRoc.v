(* RateOfChange on binary64: three correctly rounded operations on exact window values, hence a relative error of 4 * 2^-53
   on 100 * (x - r) / r (plus a negligible absolute term), for finite prices with 2^-300 <= |price| <= 2^300. *)
From Coq Require Import Reals Lra Lia ZArith List Floats Psatz.
From Flocq Require Import Core.
From TA Require Import Base Model FloatInst Proofs.Prims Proofs.WF Proofs.Ring Proofs.Wiring Proofs.GRoc
  Proofs.FloatErr Proofs.FloatSma Proofs.FloatEma Proofs.FloatSd Proofs.FloatFast.
Import ListNotations.
Open Scope R_scope.
Local Notation O := FOps.
Local Notation float := PrimFloat.float.

Definition Lb : R := bpow radix2 (-300).
Definition Ub : R := bpow radix2 300.
Definition goodp (x : float) : Prop := finF x /\ Lb <= Rabs (FR x) <= Ub.
Definition roc_real (r x : R) : R := 100 * ((x - r) / r).
Definition tiny : R := bpow radix2 (-500).

Lemma abs_bounds x b : Rabs x <= b -> - b <= x <= b.
Proof. intros H. unfold Rabs in H. destruct (Rcase_abs x); lra. Qed.
Lemma prod3 e1 e2 e3 : Rabs e1 <= u -> Rabs e2 <= u -> Rabs e3 <= u ->
  Rabs ((1 + e1) * (1 + e2) * (1 + e3) - 1) <= 4 * u.
Proof.
  pose proof u_pos as Hu0. pose proof u_le as Hu1. intros H1 H2 H3. apply abs_bounds in H1, H2, H3.
  assert (A : - (2 * u + u * u) <= (1 + e1) * (1 + e2) - 1 <= 2 * u + u * u).
  { replace ((1 + e1) * (1 + e2) - 1) with (e1 + e2 + e1 * e2) by ring. split; nra. }
  replace ((1 + e1) * (1 + e2) * (1 + e3) - 1) with (((1 + e1) * (1 + e2) - 1) * (1 + e3) + e3) by ring.
  set (d := (1 + e1) * (1 + e2) - 1) in *. assert (u * u <= u / 1000) by nra. apply Rabs_le. split; nra.
Qed.

Lemma roc_val_err (r x : float) : goodp r -> goodp x ->
  finF (groc_val O r x) /\ Rabs (FR (groc_val O r x) - roc_real (FR r) (FR x)) <= 4 * u * Rabs (roc_real (FR r) (FR x)) + tiny.
Proof.
  intros [Fr [Hr1 Hr2]] [Fx [Hx1 Hx2]]. unfold groc_val. cbn [mul div sub c100 O].
  pose proof u_pos as Hu0. pose proof u_le as Hu1. pose proof eta_pos as He0. pose proof eta_le as He1.
  set (R0 := FR r) in *. set (X := FR x) in *. unfold Lb, Ub in *.
  assert (HL0 : 0 < bpow radix2 (-300)) by apply bpow_gt_0.
  assert (HU1 : 1 <= bpow radix2 300) by (change 1 with (bpow radix2 0); apply bpow_le; lia).
  assert (HRn : R0 <> 0) by (intros Z; rewrite Z, Rabs_R0 in Hr1; lra).
  assert (HRp : 0 < Rabs R0) by lra.
  assert (Hinv : / Rabs R0 <= bpow radix2 300).
  { rewrite <- (Rinv_inv (bpow radix2 300)). apply Rinv_le_contravar; [apply Rinv_0_lt_compat, bpow_gt_0|]. rewrite <- bpow_opp. exact Hr1. }
  assert (Hinv0 : 0 < / Rabs R0) by (apply Rinv_0_lt_compat; exact HRp).
  assert (Bg : forall k, (k <= 1000)%Z -> bpow radix2 k <= BIG) by (intros k Hk; unfold BIG; apply bpow_le; exact Hk).
  (* a = x - r *)
  assert (Hd : Rabs (X - R0) <= bpow radix2 301).
  { eapply Rle_trans; [apply Rabs_triang|]. rewrite Rabs_Ropp. change 301%Z with (1 + 300)%Z. rewrite bpow_plus.
    change (bpow radix2 1) with 2. lra. }
  destruct (fsub_err x r Fx Fr) as (Fa & e1 & n1 & He1' & Hn1 & Ra); [fold X R0; eapply Rle_trans; [exact Hd|apply Bg; lia]|].
  fold X R0 in Ra. set (a := (x - r)%float) in *.
  assert (Ha : Rabs (FR a) <= bpow radix2 302).
  { eapply Rle_trans; [apply (mag_of_err _ _ _ _ Ra He1' Hn1)|].
    assert (Rabs (X - R0) * (1 + u) <= bpow radix2 301 * (1 + u)) by (apply Rmult_le_compat_r; lra).
    change 302%Z with (1 + 301)%Z. rewrite bpow_plus. change (bpow radix2 1) with 2.
    assert (1 <= bpow radix2 301) by (change 1 with (bpow radix2 0); apply bpow_le; lia).
    assert (bpow radix2 301 * u <= bpow radix2 301 * / 1000) by (apply Rmult_le_compat_l; lra). lra. }
  (* q = a / r *)
  assert (Hq0 : Rabs (FR a / R0) <= bpow radix2 602).
  { unfold Rdiv. rewrite Rabs_mult, Rabs_inv. change 602%Z with (302 + 300)%Z. rewrite bpow_plus.
    apply Rmult_le_compat; [apply Rabs_pos|lra|exact Ha|exact Hinv]. }
  destruct (fdiv_err a r Fa HRn) as (Fq & e2 & n2 & He2 & Hn2 & Rq); [fold R0; eapply Rle_trans; [exact Hq0|apply Bg; lia]|].
  fold R0 in Rq. set (q := (a / r)%float) in *.
  assert (Hq : Rabs (FR q) <= bpow radix2 603).
  { eapply Rle_trans; [apply (mag_of_err _ _ _ _ Rq He2 Hn2)|].
    assert (Rabs (FR a / R0) * (1 + u) <= bpow radix2 602 * (1 + u)) by (apply Rmult_le_compat_r; lra).
    change 603%Z with (1 + 602)%Z. rewrite bpow_plus. change (bpow radix2 1) with 2.
    assert (1 <= bpow radix2 602) by (change 1 with (bpow radix2 0); apply bpow_le; lia).
    assert (bpow radix2 602 * u <= bpow radix2 602 * / 1000) by (apply Rmult_le_compat_l; lra). lra. }
  (* o = q * 100 *)
  assert (Hm : Rabs (FR q * FR 100%float) <= bpow radix2 610).
  { rewrite FR_100, Rabs_mult, (Rabs_pos_eq 100) by lra. change 610%Z with (603 + 7)%Z. rewrite bpow_plus.
    apply Rmult_le_compat; [apply Rabs_pos|lra|exact Hq|cbn; lra]. }
  destruct (fmul_err q 100%float Fq ltac:(reflexivity)) as (Fo & e3 & n3 & He3 & Hn3 & Ro); [eapply Rle_trans; [exact Hm|apply Bg; lia]|].
  rewrite FR_100 in Ro. split; [exact Fo|]. rewrite Ro, Rq, Ra. unfold roc_real.
  set (rho := 100 * ((X - R0) / R0)).
  replace ((((X - R0) * (1 + e1) + n1) / R0 * (1 + e2) + n2) * 100 * (1 + e3) + n3 - rho)
    with (rho * ((1 + e1) * (1 + e2) * (1 + e3) - 1) + (100 * (n1 / R0) * ((1 + e2) * (1 + e3)) + 100 * n2 * (1 + e3) + n3))
    by (unfold rho; field; exact HRn).
  eapply Rle_trans; [apply Rabs_triang|]. apply Rplus_le_compat.
  - rewrite Rabs_mult, (Rmult_comm (4 * u)). apply Rmult_le_compat_l; [apply Rabs_pos|]. apply prod3; assumption.
  - (* the absolute residue is far below 2^-500 *)
    assert (Hn1R : Rabs (n1 / R0) <= eta * bpow radix2 300).
    { unfold Rdiv. rewrite Rabs_mult, Rabs_inv. apply Rmult_le_compat; [apply Rabs_pos|lra|exact Hn1|exact Hinv]. }
    assert (H2b : Rabs ((1 + e2) * (1 + e3)) <= 2).
    { rewrite Rabs_mult. apply abs_bounds in He2, He3.
      assert (Rabs (1 + e2) <= 1 + u) by (apply Rabs_le; lra). assert (Rabs (1 + e3) <= 1 + u) by (apply Rabs_le; lra).
      assert (Rabs (1 + e2) * Rabs (1 + e3) <= (1 + u) * (1 + u)) by (apply Rmult_le_compat; try apply Rabs_pos; assumption). nra. }
    assert (H3b : Rabs (1 + e3) <= 2) by (apply abs_bounds in He3; apply Rabs_le; lra).
    assert (Het : eta * bpow radix2 300 <= bpow radix2 (-775)).
    { unfold eta. change (3 - emax - prec)%Z with (-1074)%Z. rewrite Rmult_assoc, <- bpow_plus.
      change (/ 2) with (bpow radix2 (-1)). rewrite <- bpow_plus. apply bpow_le. lia. }
    assert (Het2 : eta <= bpow radix2 (-775)).
    { unfold eta. change (3 - emax - prec)%Z with (-1074)%Z. change (/ 2) with (bpow radix2 (-1)). rewrite <- bpow_plus. apply bpow_le. lia. }
    eapply Rle_trans; [apply Rabs_triang|]. eapply Rle_trans; [apply Rplus_le_compat_r, Rabs_triang|].
    rewrite (Rabs_mult (100 * (n1 / R0))), (Rabs_mult 100 (n1 / R0)), (Rabs_mult (100 * n2)), (Rabs_mult 100 n2), (Rabs_pos_eq 100) by lra.
    assert (P1 : 100 * Rabs (n1 / R0) * Rabs ((1 + e2) * (1 + e3)) <= 100 * bpow radix2 (-775) * 2).
    { apply Rmult_le_compat; [apply Rmult_le_pos; [lra|apply Rabs_pos]|apply Rabs_pos| |exact H2b]. apply Rmult_le_compat_l; lra. }
    assert (P2 : 100 * Rabs n2 * Rabs (1 + e3) <= 100 * bpow radix2 (-775) * 2).
    { apply Rmult_le_compat; [apply Rmult_le_pos; [lra|apply Rabs_pos]|apply Rabs_pos| |exact H3b]. apply Rmult_le_compat_l; lra. }
    assert (P3 : Rabs n3 <= bpow radix2 (-775)) by lra.
    assert (Hfin : 401 * bpow radix2 (-775) <= tiny).
    { unfold tiny. apply Rle_trans with (bpow radix2 9 * bpow radix2 (-775)); [apply Rmult_le_compat_r; [apply bpow_ge_0|cbn; lra]|].
      rewrite <- bpow_plus. apply bpow_le. lia. }
    lra.
Qed.

(* ---- the whole stream ---- *)
Fixpoint roc_real_stream (p : nat) (h xs : list float) : list R :=
  match xs with [] => [] | x :: xs => roc_real (FR (groc_ref p h x)) (FR x) :: roc_real_stream p (h ++ [x]) xs end.

Lemma good_ref p h x : Forall goodp h -> goodp x -> goodp (groc_ref p h x).
Proof.
  intros Hh Hx. unfold groc_ref. pose proof (Forall_lastn goodp p h Hh) as Hl. destruct (lastn p h); [exact Hx|]. now inversion Hl.
Qed.

Lemma roc_stream_err p : forall xs h, Forall goodp h -> Forall goodp xs ->
  Forall2 (fun o rho => finF o /\ Rabs (FR o - rho) <= 4 * u * Rabs rho + tiny) (groc_stream O p h xs) (roc_real_stream p h xs).
Proof.
  induction xs as [|x xs IH]; intros h Hh Hxs; [constructor|]. cbn [groc_stream roc_real_stream].
  pose proof (Forall_inv Hxs) as Hx. pose proof (Forall_inv_tail Hxs) as Hxs'. constructor.
  - apply roc_val_err; [apply good_ref; assumption|exact Hx].
  - apply IH; [apply Forall_app; split; [exact Hh|constructor; [exact Hx|constructor]]|exact Hxs'].
Qed.

(* binary64 RateOfChange: every output is finite and within a relative 4 * 2^-53 (plus 2^-500) of 100 * (x - r) / r, where r is the
   documented reference price of the window, for every period and every stream of finite prices with 2^-300 <= |price| <= 2^300 *)
Theorem roc_float_error : forall p s xs, roc_new O p = Ok s -> Forall goodp xs ->
  Forall2 (fun o rho => finF o /\ Rabs (FR o - rho) <= 4 * u * Rabs rho + tiny)
          (res_outs (roc_next O) s xs) (roc_real_stream (N.to_nat p) [] xs).
Proof. intros p s xs H Hxs. rewrite (groc_refines O p s xs H). apply roc_stream_err; [constructor|exact Hxs]. Qed.
