#!/bin/bash
# usage: tools/trymut.sh <patch.diff> <prop> [<prop>...]
# applies the patch to a scratch clone of /repo (never /repo itself), runs the quick checks against it, reverts
set -u
patch=$(readlink -f "$1"); shift
M=${MUT_DIR:-/tmp/repo_mut}
[ -d $M/.git ] || git clone -q /repo $M
git -C $M fetch -q origin && git -C $M checkout -q --detach origin/HEAD 2>/dev/null || git -C $M checkout -q --detach $(git -C /repo rev-parse HEAD)
git -C $M checkout -q -- . 
git -C $M apply "$patch" || { echo "patch does not apply"; exit 2; }
for p in "$@"; do
  out=$(cd "$(dirname "$(readlink -f "$0")")/.." && VERIF_REPO=$M timeout 1800 ./check $p quick 2>&1 | grep -E "^(OK|VIOLATION)" | cut -c1-200)
  echo "[$p] $out"
done
git -C $M checkout -q -- .
