(* C14 — Outputs are covariant with the price unit: rescaling / shifting act as in the math. Statements only.
   Exact arithmetic: multiplying every price by c multiplies the price-valued outputs by c; adding d shifts the levels by d. *)
From Coq Require Import Reals.
From TA Require Import Base Model XR Proofs.Ring Proofs.XBase Proofs.XSma Proofs.XWma Proofs.XMad Proofs.XSd Proofs.Wiring Proofs.XEma Proofs.XCor
  Proofs.MinMaxProofs Proofs.NegProofs.
Open Scope R_scope.

Theorem C14_sma_scale : forall p s c xs, sma_new XROps p = Ok s ->
  sma_outs s (map Fin (map (Rmult c) xs)) = map (fun o => mul XROps (Fin c) o) (sma_outs s (map Fin xs)).
Proof. exact sma_scale. Qed.
Theorem C14_wma_scale : forall p s c xs, wma_new XROps p = Ok s ->
  wma_outs s (map Fin (map (Rmult c) xs)) = map (fun o => mul XROps (Fin c) o) (wma_outs s (map Fin xs)).
Proof. exact wma_scale. Qed.
Theorem C14_sd_scale : forall p s c xs, sd_new XROps p = Ok s -> 0 <= c ->
  XSd.sd_outs s (map Fin (map (Rmult c) xs)) = map (fun o => mul XROps (Fin c) o) (XSd.sd_outs s (map Fin xs)).
Proof. exact sd_scale. Qed.
Theorem C14_mad_scale : forall p s c xs, mad_new XROps p = Ok s -> 0 <= c ->
  XMad.mad_outs s (map Fin (map (Rmult c) xs)) = map (fun o => mul XROps (Fin c) o) (XMad.mad_outs s (map Fin xs)).
Proof. exact mad_scale. Qed.
Theorem C14_ema_scale : forall p s c xs, ema_new XROps p = Ok s ->
  ema_outs XROps s (map Fin (map (Rmult c) xs)) = map (fun o => mul XROps (Fin c) o) (ema_outs XROps s (map Fin xs)).
Proof. exact ema_scale. Qed.
Theorem C14_sma_shift : forall p s d xs, sma_new XROps p = Ok s ->
  sma_outs s (map Fin (map (Rplus d) xs)) = map (fun o => add XROps (Fin d) o) (sma_outs s (map Fin xs)).
Proof. exact sma_shift. Qed.
Theorem C14_ema_shift : forall p s d xs, ema_new XROps p = Ok s ->
  ema_outs XROps s (map Fin (map (Rplus d) xs)) = map (fun o => add XROps (Fin d) o) (ema_outs XROps s (map Fin xs)).
Proof. exact ema_shift. Qed.

(* Maximum(x) = -Minimum(-x) exactly, on every stream, for every number type whose negation reverses the comparison
   (IEEE negation on binary64 does, bit-exactly; so do the reals) *)
Theorem C14_max_is_neg_min : forall (F : Type) (O : Ops F) (p : N) (xs : list F),
  neg_reverses O ->
  max_outs O (mkMax p 0 0 (repeat (ninf O) (N.to_nat p))) xs =
  map (neg O) (min_outs O (mkMin p 0 0 (repeat (inf O) (N.to_nat p))) (map (neg O) xs)).
Proof. intros F O p xs NR. exact (max_is_neg_min O NR p xs). Qed.

(* ---- further covariance theorems (Proofs/XCov.v): dimensionless indicators, MACD, shifts, Minimum/Maximum ---- *)
From Coq Require Import List.
From TA Require Import Proofs.XRoc Proofs.XEr Proofs.XMfi Proofs.XBands Proofs.XCci Proofs.XFast Proofs.XCov.

Theorem C14_wma_shift : forall p s d xs, wma_new XROps p = Ok s ->
  XWma.wma_outs s (map Fin (map (Rplus d) xs)) = map (fun o => add XROps (Fin d) o) (XWma.wma_outs s (map Fin xs)).
Proof. exact wma_shift. Qed.
Theorem C14_mad_shift : forall p s d xs, mad_new XROps p = Ok s ->
  XMad.mad_outs s (map Fin (map (Rplus d) xs)) = XMad.mad_outs s (map Fin xs).
Proof. exact mad_shift. Qed.
Theorem C14_sd_shift : forall p s d xs, sd_new XROps p = Ok s ->
  XSd.sd_outs s (map Fin (map (Rplus d) xs)) = XSd.sd_outs s (map Fin xs).
Proof. exact sd_shift. Qed.

(* Minimum and Maximum commute with every strictly increasing map of the prices: x -> c*x (c > 0), x -> x + d, ... *)
Theorem C14_min_mono : forall p s f xs, min_new XROps p = Ok s -> increasing f ->
  min_outs XROps s (map Fin (map f xs)) = map (xmap f) (min_outs XROps s (map Fin xs)).
Proof. exact min_mono. Qed.
Theorem C14_max_mono : forall p s f xs, max_new XROps p = Ok s -> increasing f ->
  max_outs XROps s (map Fin (map f xs)) = map (xmap f) (max_outs XROps s (map Fin xs)).
Proof. exact max_mono. Qed.

(* FastStochastic is unchanged by x -> c*x + d, c > 0 *)
Theorem C14_fast_affine : forall p s c d xs, fast_new XROps p = Ok s -> 0 < c ->
  fast_outs XROps s (map Fin (map (fun y => c * y + d) xs)) = fast_outs XROps s (map Fin xs).
Proof. exact fast_affine. Qed.

(* MACD: exact real form; scales with the unit; unchanged by a shift *)
Theorem C14_macd_scale : forall k1 k2 k3 c xs,
  macd_real k1 k2 k3 (map (Rmult c) xs) = map (map (Rmult c)) (macd_real k1 k2 k3 xs).
Proof. exact macd_scale. Qed.
Theorem C14_macd_shift : forall k1 k2 k3 d xs, macd_real k1 k2 k3 (map (Rplus d) xs) = macd_real k1 k2 k3 xs.
Proof. exact macd_shift. Qed.
Theorem C14_macd_real : forall p1 p2 p3 s xs, macd_new XROps p1 p2 p3 = Ok s ->
  macd_outs XROps s (map Fin xs) = map (map Fin) (macd_real (kreal p1) (kreal p2) (kreal p3) xs).
Proof. exact macd_exact. Qed.

(* the dimensionless indicators are unchanged when every price is multiplied by c > 0, IEEE corner cases included *)
Theorem C14_ppo_scale : forall p1 p2 p3 s c xs, ppo_new XROps p1 p2 p3 = Ok s -> 0 < c ->
  ppo_outs XROps s (map Fin (map (Rmult c) xs)) = ppo_outs XROps s (map Fin xs).
Proof. exact ppo_scale. Qed.
Theorem C14_roc_scale : forall p h x c, 0 < c -> roc_spec p (map (Rmult c) h) (c * x) = roc_spec p h x.
Proof. exact roc_scale. Qed.
Theorem C14_er_scale : forall p h x c, 0 < c -> er_spec p (map (Rmult c) h) (c * x) = er_spec p h x.
Proof. exact er_scale. Qed.
Theorem C14_cci_scale : forall p h tp c, 0 < c -> cci_spec p (map (Rmult c) h) (c * tp) = cci_spec p h tp.
Proof. exact cci_scale. Qed.
Theorem C14_mfi_scale : forall p b0 bs c, 0 < c -> mfi_spec p (mscale c b0) (map (mscale c) bs) = mfi_spec p b0 bs.
Proof. exact mfi_scale. Qed.

(* TrueRange / ATR / KeltnerChannel (scalar path, exact real forms) and the Bollinger levels *)
Theorem C14_tr_scale : forall c xs, tr_stream (map (Rmult c) xs) = map (Rmult (Rabs c)) (tr_stream xs).
Proof. exact tr_scale. Qed.
Theorem C14_tr_shift : forall d xs, tr_stream (map (Rplus d) xs) = tr_stream xs.
Proof. exact tr_shift. Qed.
Theorem C14_atr_scale : forall k c xs, 0 <= c ->
  ema_stream k (tr_stream (map (Rmult c) xs)) = map (Rmult c) (ema_stream k (tr_stream xs)).
Proof. exact atr_scale. Qed.
Theorem C14_atr_shift : forall k d xs, ema_stream k (tr_stream (map (Rplus d) xs)) = ema_stream k (tr_stream xs).
Proof. exact atr_shift. Qed.
Theorem C14_kc_scale : forall k m c xs, 0 <= c -> kc_real k m (map (Rmult c) xs) = map (map (Rmult c)) (kc_real k m xs).
Proof. exact kc_scale. Qed.
Theorem C14_kc_shift : forall k m d xs, kc_real k m (map (Rplus d) xs) = map (map (Rplus d)) (kc_real k m xs).
Proof. exact kc_shift. Qed.
Theorem C14_bb_scale : forall p mu hh c, 0 <= c ->
  XSd.bb_spec p mu (map (Rmult c) hh) = map (fun o => mul XROps (Fin c) o) (XSd.bb_spec p mu hh).
Proof. exact bb_scale. Qed.
Theorem C14_bb_shift : forall p mu hh d, lastn p hh <> [] ->
  XSd.bb_spec p mu (map (Rplus d) hh) = map (fun o => add XROps (Fin d) o) (XSd.bb_spec p mu hh).
Proof. exact bb_shift. Qed.
(* the real forms are what the model computes (scalar path) *)
Theorem C14_tr_real : forall xs, tr_outs XROps tr_new (map Fin xs) = map Fin (tr_stream xs).
Proof. exact tr_exact. Qed.
Theorem C14_atr_real : forall p a xs, atr_new XROps p = Ok a ->
  atr_outs XROps a (map Fin xs) = map Fin (ema_stream (kreal p) (tr_stream xs)).
Proof. exact atr_exact. Qed.
Theorem C14_kc_real : forall p m s xs, kc_new XROps p (Fin m) = Ok s ->
  kc_outs XROps s (map Fin xs) = map (map Fin) (kc_real (kreal p) m xs).
Proof. exact kc_exact. Qed.
Theorem C14_slow_affine : forall p q s c d xs, slow_new XROps p q = Ok s -> 0 < c ->
  slow_outs XROps s (map Fin (map (fun y => c * y + d) xs)) = slow_outs XROps s (map Fin xs).
Proof. exact slow_affine. Qed.
Theorem C14_obv_scale : forall c (bars : list (R * R)), 0 < c ->
  Osc.obv_outs XROps (obv_new XROps) (map (fun b : R * R => mkBar (Fin 0) (Fin 0) (Fin 0) (Fin (c * fst b)) (Fin (snd b))) bars) =
  Osc.obv_outs XROps (obv_new XROps) (map (fun b : R * R => mkBar (Fin 0) (Fin 0) (Fin 0) (Fin (fst b)) (Fin (snd b))) bars).
Proof. exact obv_scale_new. Qed.

(* ---- ChandelierExit and the bar paths of TrueRange / ATR (exact reals; bars as (high, low, close)) ---- *)
From TA Require Import Proofs.XBands Proofs.XCe.
Theorem C14_atr_bar_real : forall p a bars, atr_new XROps p = Ok a ->
  atr_bar_outs XROps a (map mkb bars) = map Fin (ema_stream (kreal p) (trb_stream None bars)).
Proof. exact atr_bar_exact. Qed.
Theorem C14_atr_bar_scale : forall k c bars, 0 <= c ->
  ema_stream k (trb_stream None (map (bscale c) bars)) = map (Rmult c) (ema_stream k (trb_stream None bars)).
Proof. exact atr_bar_scale. Qed.
Theorem C14_atr_bar_shift : forall k d bars,
  ema_stream k (trb_stream None (map (bshift d) bars)) = ema_stream k (trb_stream None bars).
Proof. exact atr_bar_shift. Qed.
(* rescaling every price of every bar by c > 0 rescales both stops (also the non-finite ones stay what they are) ... *)
Theorem C14_ce_scale : forall p mu s c bars, ce_new XROps p (Fin mu) = Ok s -> 0 < c ->
  ce_outs XROps s (map mkb (map (bscale c) bars)) = map (map (xmap (Rmult c))) (ce_outs XROps s (map mkb bars)).
Proof. exact ce_scale. Qed.
(* ... and shifting every price by d shifts both stops by d, for every multiplier *)
Theorem C14_ce_shift : forall p mu s d bars, ce_new XROps p (Fin mu) = Ok s ->
  ce_outs XROps s (map mkb (map (bshift d) bars)) = map (map (xmap (Rplus d))) (ce_outs XROps s (map mkb bars)).
Proof. exact ce_shift. Qed.
(* KeltnerChannel fed bars: EMA of the typical price (close + high + low) / 3, bands at +- multiplier * ATR of the bars *)
Theorem C14_kc_bar_real : forall p m s bars, kc_new XROps p (Fin m) = Ok s ->
  kc_bar_outs XROps s (map mkb bars) = map (map Fin) (kc_bar_real (kreal p) m bars).
Proof. exact kc_bar_exact. Qed.
Theorem C14_kc_bar_scale : forall k m c bars, 0 <= c -> kc_bar_real k m (map (bscale c) bars) = map (map (Rmult c)) (kc_bar_real k m bars).
Proof. exact kc_bar_scale. Qed.
Theorem C14_kc_bar_shift : forall k m d bars, kc_bar_real k m (map (bshift d) bars) = map (map (Rplus d)) (kc_bar_real k m bars).
Proof. exact kc_bar_shift. Qed.

(* ---- on binary64: why power-of-two factors are covariant bit for bit. Round-to-nearest-even commutes with multiplication by 2^k
   whenever the argument and the scaled argument are zero or normal (C14_RN_pow2); hence correctly rounded + and - of operands scaled by
   2^k return the scaled result (C14_add_pow2_binary64, C14_sub_pow2_binary64), a ratio of two scaled quantities does not move at all
   (C14_ratio_pow2_binary64), and RateOfChange — ((x - r) / r) * 100 on the window reference for every number type — returns exactly the
   same value on the scaled stream (C14_roc_pow2_binary64) ---- *)
From Coq Require Import Reals Floats.
From Flocq Require Import Core.
From TA Require Import FloatInst Proofs.FloatErr Proofs.GRoc Proofs.FloatScale.
Theorem C14_RN_pow2 : forall x k,
  (x = 0 \/ (nmin <= Rabs x /\ nmin <= Rabs (x * bpow radix2 k)))%R -> (RNd (x * bpow radix2 k) = RNd x * bpow radix2 k)%R.
Proof. exact RNd_mult_bpow0. Qed.
(* RNd is what binary64 addition computes: *)
Theorem C14_add_is_RNd : forall a b, finF a -> finF b -> (Rabs (FR a + FR b) <= BIG)%R -> FR (a + b)%float = RNd (FR a + FR b).
Proof. exact fadd_is_RNd. Qed.
Theorem C14_add_pow2_binary64 : forall k a b a' b', scaled k a a' -> scaled k b b' ->
  (Rabs (FR a + FR b) <= BIG)%R -> (Rabs ((FR a + FR b) * bpow radix2 k) <= BIG)%R -> zero_or_normal k (FR a + FR b) ->
  scaled k (a + b)%float (a' + b')%float.
Proof. exact fadd_scale. Qed.
Theorem C14_sub_pow2_binary64 : forall k a b a' b', scaled k a a' -> scaled k b b' ->
  (Rabs (FR a - FR b) <= BIG)%R -> (Rabs ((FR a - FR b) * bpow radix2 k) <= BIG)%R -> zero_or_normal k (FR a - FR b) ->
  scaled k (a - b)%float (a' - b')%float.
Proof. exact fsub_scale. Qed.
Theorem C14_ratio_pow2_binary64 : forall k a b a' b', scaled k a a' -> scaled k b b' -> FR b <> 0%R -> (Rabs (FR a / FR b) <= BIG)%R ->
  finF (a / b)%float /\ finF (a' / b')%float /\ FR (a' / b')%float = FR (a / b)%float.
Proof. exact fdiv_scale_ratio. Qed.
Theorem C14_roc_pow2_binary64 : forall k x r x' r', scaled k x x' -> scaled k r r' -> FR r <> 0%R ->
  (Rabs (FR x - FR r) <= BIG)%R -> (Rabs ((FR x - FR r) * bpow radix2 k) <= BIG)%R -> zero_or_normal k (FR x - FR r) ->
  (Rabs (FR (x - r)%float / FR r) <= BIG / 256)%R ->
  finF (groc_val FOps r x) /\ finF (groc_val FOps r' x') /\ FR (groc_val FOps r' x') = FR (groc_val FOps r x).
Proof. exact roc_pow2_invariant. Qed.
(* FastStochastic's %K = ((x - lo) / (hi - lo)) * 100 on the window extremes (C03_fast: the model's formula for every number type) *)
Theorem C14_fast_pow2_binary64 : forall k x lo hi x' lo' hi', scaled k x x' -> scaled k lo lo' -> scaled k hi hi' ->
  (Rabs (FR x - FR lo) <= BIG)%R -> (Rabs ((FR x - FR lo) * bpow radix2 k) <= BIG)%R -> zero_or_normal k (FR x - FR lo) ->
  (Rabs (FR hi - FR lo) <= BIG)%R -> (Rabs ((FR hi - FR lo) * bpow radix2 k) <= BIG)%R -> zero_or_normal k (FR hi - FR lo) ->
  FR (hi - lo)%float <> 0%R -> (Rabs (FR (x - lo)%float / FR (hi - lo)%float) <= BIG / 256)%R ->
  FR (((x' - lo') / (hi' - lo')) * 100)%float = FR (((x - lo) / (hi - lo)) * 100)%float.
Proof. exact fast_formula_pow2_invariant. Qed.
(* one update of SimpleMovingAverage (sum' = sum - old + x, output sum' / count, Model.sma_next): with running sum, evicted value and input
   scaled by 2^k the new running sum and the output are the scaled ones, under the stated zero-or-normal side conditions on the three
   intermediate results; the ring buffer stores inputs only, so the statement chains along a stream step by step *)
Theorem C14_sma_update_pow2_binary64 : forall k (sum old x sum' old' x' cnt : PrimFloat.float),
  scaled k sum sum' -> scaled k old old' -> scaled k x x' -> finF cnt -> FR cnt <> 0%R ->
  let d := (sum - old)%float in let s1 := (sum - old + x)%float in
  (Rabs (FR sum - FR old) <= BIG)%R -> (Rabs ((FR sum - FR old) * bpow radix2 k) <= BIG)%R -> zero_or_normal k (FR sum - FR old) ->
  (Rabs (FR d + FR x) <= BIG)%R -> (Rabs ((FR d + FR x) * bpow radix2 k) <= BIG)%R -> zero_or_normal k (FR d + FR x) ->
  (Rabs (FR s1 / FR cnt) <= BIG)%R -> (Rabs ((FR s1 / FR cnt) * bpow radix2 k) <= BIG)%R -> zero_or_normal k (FR s1 / FR cnt) ->
  scaled k s1 (sum' - old' + x')%float /\ scaled k (s1 / cnt)%float ((sum' - old' + x') / cnt)%float.
Proof. exact sma_update_pow2. Qed.

(* ... and for WHOLE STREAMS of SimpleMovingAverage: two instances related by "same cursors, running sum and every slot scaled by 2^k"
   stay related, and every output of the instance fed 2^k x is 2^k times (as a value: FR o' = FR o * 2^k) the output of the instance fed
   x, along every stream whose steps succeed and meet the zero-or-normal side conditions (sma_run_ok); from two fresh instances in
   particular. Non-vacuity: C14_sma_run_ok_example. *)
From TA Require Import Proofs.Wiring Proofs.FloatScaleSma.
Theorem C14_sma_stream_pow2_binary64 : forall k xs xs' s s', rel_sma k s s' -> Forall2 (scaled k) xs xs' -> sma_run_ok k s xs ->
  Forall2 (scaled k) (res_outs (sma_next FOps) s xs) (res_outs (sma_next FOps) s' xs').
Proof. exact sma_stream_pow2. Qed.
Theorem C14_sma_pow2_binary64 : forall k p s xs xs', sma_new FOps p = Ok s -> Forall2 (scaled k) xs xs' -> sma_run_ok k s xs ->
  Forall2 (scaled k) (res_outs (sma_next FOps) s xs) (res_outs (sma_next FOps) s xs').
Proof. exact sma_pow2_covariant. Qed.
Example C14_sma_run_ok_example : exists s, sma_new FOps 2 = Ok s /\ sma_run_ok 3 s [1.5%float] /\ scaled 3 1.5%float 12%float.
Proof. exact sma_run_ok_example. Qed.

(* ... and for whole streams of ExponentialMovingAverage (the smoothing factor and 1 - k are dimensionless: the same floats in both runs) *)
From TA Require Import Proofs.FloatScaleEma.
Theorem C14_ema_stream_pow2_binary64 : forall k xs xs' s s', rel_ema k s s' -> Forall2 (scaled k) xs xs' -> ema_run_ok k s xs ->
  Forall2 (scaled k) (ema_outs FOps s xs) (ema_outs FOps s' xs').
Proof. exact ema_stream_pow2. Qed.
Theorem C14_ema_pow2_binary64 : forall k p s xs xs', ema_new FOps p = Ok s -> Forall2 (scaled k) xs xs' -> ema_run_ok k s xs ->
  Forall2 (scaled k) (ema_outs FOps s xs) (ema_outs FOps s xs').
Proof. exact ema_pow2_covariant. Qed.
Example C14_ema_run_ok_example : exists s, ema_new FOps 1 = Ok s /\ ema_run_ok 3 s [1.5%float; 2.5%float].
Proof. exact ema_run_ok_example. Qed.

(* ... and for whole streams of WeightedMovingAverage (weights and the denominator n(n+1)/2 are dimensionless: the same floats in both
   runs); side conditions as for SMA, on sum_flat - old, + x, input * weight, sum (- sum_flat) + that, and the final quotient *)
From TA Require Import Proofs.FloatScaleWma.
Theorem C14_wma_stream_pow2_binary64 : forall k xs xs' s s', rel_wma k s s' -> Forall2 (scaled k) xs xs' -> wma_run_ok k s xs ->
  Forall2 (scaled k) (res_outs (wma_next FOps) s xs) (res_outs (wma_next FOps) s' xs').
Proof. exact wma_stream_pow2. Qed.
Theorem C14_wma_pow2_binary64 : forall k p s xs xs', wma_new FOps p = Ok s -> Forall2 (scaled k) xs xs' -> wma_run_ok k s xs ->
  Forall2 (scaled k) (res_outs (wma_next FOps) s xs) (res_outs (wma_next FOps) s xs').
Proof. exact wma_pow2_covariant. Qed.

(* ... and for whole streams of StandardDeviation: the running mean scales by 2^k, the running sum of squares m2 — a sum of products of two
   scaled differences — by 2^(2k), the clamp `if m2 < 0 { 0 }` commutes with every scaling, the variance m2 / count scales by 2^(2k) and
   its correctly rounded square root by 2^k (C14_sqrt_pow2_binary64) *)
From TA Require Import Proofs.FloatScaleSd.
Theorem C14_sqrt_pow2_binary64 : forall k y y', scaled (2 * k) y y' -> (0 <= FR y)%R -> zero_or_normal k (R_sqrt.sqrt (FR y)) ->
  scaled k (PrimFloat.sqrt y) (PrimFloat.sqrt y').
Proof. exact fsqrt_scale. Qed.
Theorem C14_sd_stream_pow2_binary64 : forall k xs xs' s s', rel_sd k s s' -> Forall2 (scaled k) xs xs' -> sd_run_ok k s xs ->
  Forall2 (scaled k) (res_outs (sd_next FOps) s xs) (res_outs (sd_next FOps) s' xs').
Proof. exact sd_stream_pow2. Qed.
Theorem C14_sd_pow2_binary64 : forall k p s xs xs', sd_new FOps p = Ok s -> Forall2 (scaled k) xs xs' -> sd_run_ok k s xs ->
  Forall2 (scaled k) (res_outs (sd_next FOps) s xs) (res_outs (sd_next FOps) s xs').
Proof. exact sd_pow2_covariant. Qed.

(* ... and for whole streams of BollingerBands: all three bands (the middle band is StandardDeviation's running mean, the half-width is
   SD * multiplier with a dimensionless multiplier) *)
From TA Require Import Proofs.FloatScaleBb.
Theorem C14_bb_stream_pow2_binary64 : forall k xs xs' s s', rel_bb k s s' -> Forall2 (scaled k) xs xs' -> bb_run_ok k s xs ->
  Forall2 (Forall2 (scaled k)) (res_outs (bb_next FOps) s xs) (res_outs (bb_next FOps) s' xs').
Proof. exact bb_stream_pow2. Qed.
Theorem C14_bb_pow2_binary64 : forall k p mu s xs xs', bb_new FOps p mu = Ok s -> Forall2 (scaled k) xs xs' -> bb_run_ok k s xs ->
  Forall2 (Forall2 (scaled k)) (res_outs (bb_next FOps) s xs) (res_outs (bb_next FOps) s xs').
Proof. exact bb_pow2_covariant. Qed.

(* ... and for whole streams of MACD: line, signal and histogram (three EMA updates and two correctly rounded subtractions per step) *)
From TA Require Import Proofs.FloatScaleMacd.
Theorem C14_macd_stream_pow2_binary64 : forall k xs xs' s s', rel_macd k s s' -> Forall2 (scaled k) xs xs' -> macd_run_ok k s xs ->
  Forall2 (Forall2 (scaled k)) (macd_outs FOps s xs) (macd_outs FOps s' xs').
Proof. exact macd_stream_pow2. Qed.
Theorem C14_macd_pow2_binary64 : forall k pf ps pg s xs xs', macd_new FOps pf ps pg = Ok s -> Forall2 (scaled k) xs xs' -> macd_run_ok k s xs ->
  Forall2 (Forall2 (scaled k)) (macd_outs FOps s xs) (macd_outs FOps s xs').
Proof. exact macd_pow2_covariant. Qed.

(* ... and for whole streams (scalar path) of AverageTrueRange and KeltnerChannel: |.| is exact and commutes with the scaling, the
   multiplier is dimensionless *)
From TA Require Import Proofs.FloatScaleKc.
Theorem C14_atr_pow2_binary64 : forall k p a xs xs', atr_new FOps p = Ok a -> Forall2 (scaled k) xs xs' -> atr_run_ok k a xs ->
  Forall2 (scaled k) (atr_outs FOps a xs) (atr_outs FOps a xs').
Proof. exact atr_pow2_covariant. Qed.
Theorem C14_kc_stream_pow2_binary64 : forall k xs xs' s s', rel_kc k s s' -> Forall2 (scaled k) xs xs' -> kc_run_ok k s xs ->
  Forall2 (Forall2 (scaled k)) (kc_outs FOps s xs) (kc_outs FOps s' xs').
Proof. exact kc_stream_pow2. Qed.
Theorem C14_kc_pow2_binary64 : forall k p mu s xs xs', kc_new FOps p mu = Ok s -> Forall2 (scaled k) xs xs' -> kc_run_ok k s xs ->
  Forall2 (Forall2 (scaled k)) (kc_outs FOps s xs) (kc_outs FOps s xs').
Proof. exact kc_pow2_covariant. Qed.

(* ... and a dimensionless one over whole streams: PercentagePriceOscillator is UNCHANGED (scaled 0: FR o' = FR o) by 2^k *)
From TA Require Import Proofs.FloatScalePpo.
Theorem C14_ppo_stream_pow2_binary64 : forall k xs xs' s s', rel_ppo k s s' -> Forall2 (scaled k) xs xs' -> ppo_run_ok k s xs ->
  Forall2 (Forall2 (scaled 0)) (ppo_outs FOps s xs) (ppo_outs FOps s' xs').
Proof. exact ppo_stream_pow2. Qed.
Theorem C14_ppo_pow2_binary64 : forall k pf ps pg s xs xs', ppo_new FOps pf ps pg = Ok s -> Forall2 (scaled k) xs xs' -> ppo_run_ok k s xs ->
  Forall2 (Forall2 (scaled 0)) (ppo_outs FOps s xs) (ppo_outs FOps s xs').
Proof. exact ppo_pow2_invariant. Qed.

(* ... and RateOfChange over whole streams (ring buffer of inputs + the invariant ratio): unchanged by 2^k *)
From TA Require Import Proofs.FloatScaleRoc.
Theorem C14_roc_stream_pow2_binary64 : forall k xs xs' s s', rel_roc k s s' -> Forall2 (scaled k) xs xs' -> roc_run_ok k s xs ->
  Forall2 (scaled 0) (res_outs (roc_next FOps) s xs) (res_outs (roc_next FOps) s' xs').
Proof. exact roc_stream_pow2. Qed.
Theorem C14_roc_pow2_stream_binary64 : forall k p s xs xs', roc_new FOps p = Ok s -> Forall2 (scaled k) xs xs' -> roc_run_ok k s xs ->
  Forall2 (scaled 0) (res_outs (roc_next FOps) s xs) (res_outs (roc_next FOps) s xs').
Proof. exact roc_pow2_invariant_stream. Qed.

(* ... and the bar paths over whole streams: bars whose high / low / close are multiplied by 2^k (sbar); Rust's f64::max picks one of its
   operands and the comparison does not change under a positive factor (C14_fmax_pow2_binary64) *)
From TA Require Import Proofs.FloatScaleKcBar.
Theorem C14_fmax_pow2_binary64 : forall j a b a' b', scaled j a a' -> scaled j b b' -> scaled j (fmax FOps a b) (fmax FOps a' b').
Proof. exact fmax_scale. Qed.
Theorem C14_atr_bar_stream_pow2_binary64 : forall k bs bs' a a', rel_atr k a a' -> Forall2 (sbar k) bs bs' -> atrb_run_ok k a bs ->
  Forall2 (scaled k) (atr_bar_outs FOps a bs) (atr_bar_outs FOps a' bs').
Proof. exact atr_bar_stream_pow2. Qed.
Theorem C14_kc_bar_stream_pow2_binary64 : forall k bs bs' s s', rel_kc k s s' -> Forall2 (sbar k) bs bs' -> kcb_run_ok k s bs ->
  Forall2 (Forall2 (scaled k)) (kc_bar_outs FOps s bs) (kc_bar_outs FOps s' bs').
Proof. exact kc_bar_stream_pow2. Qed.

(* ... and Minimum over whole streams, with NO side condition on the values: it only compares and copies, and `<` on floats does not
   change when both operands are multiplied by 2^k or are both the +infinity of an unused slot (sinf = scaled, or both +infinity);
   the length hypothesis says that the unscaled run does not fail (C12) *)
From TA Require Import Proofs.FloatScaleMin.
Theorem C14_ltb_pow2_binary64 : forall k a b a' b', sinf k a a' -> sinf k b b' -> (a' <? b')%float = (a <? b)%float.
Proof. exact ltb_sinf. Qed.
Theorem C14_min_stream_pow2_binary64 : forall k xs xs' s s', rel_min k s s' -> Forall2 (sinf k) xs xs' ->
  length (res_outs (min_next FOps) s xs) = length xs ->
  Forall2 (sinf k) (res_outs (min_next FOps) s xs) (res_outs (min_next FOps) s' xs').
Proof. exact min_stream_pow2. Qed.
Theorem C14_min_pow2_binary64 : forall k p s xs xs', min_new FOps p = Ok s -> Forall2 (scaled k) xs xs' ->
  length (res_outs (min_next FOps) s xs) = length xs ->
  Forall2 (sinf k) (res_outs (min_next FOps) s xs) (res_outs (min_next FOps) s xs').
Proof. exact min_pow2_covariant. Qed.

(* ... and Maximum, the mirror image (sninf = scaled, or both -infinity) *)
From TA Require Import Proofs.FloatScaleMax.
Theorem C14_max_stream_pow2_binary64 : forall k xs xs' s s', rel_max k s s' -> Forall2 (sninf k) xs xs' ->
  length (res_outs (max_next FOps) s xs) = length xs ->
  Forall2 (sninf k) (res_outs (max_next FOps) s xs) (res_outs (max_next FOps) s' xs').
Proof. exact max_stream_pow2. Qed.
Theorem C14_max_pow2_binary64 : forall k p s xs xs', max_new FOps p = Ok s -> Forall2 (scaled k) xs xs' ->
  length (res_outs (max_next FOps) s xs) = length xs ->
  Forall2 (sninf k) (res_outs (max_next FOps) s xs) (res_outs (max_next FOps) s xs').
Proof. exact max_pow2_covariant. Qed.

(* ... and FastStochastic over whole streams (scalar path): UNCHANGED by 2^k — Minimum and Maximum scale, `min == max` does not change
   (C14_eqb_pow2_binary64), %K is the same value *)
From TA Require Import Proofs.FloatScaleFast.
Theorem C14_eqb_pow2_binary64 : forall k a b a' b', scaled k a a' -> scaled k b b' -> (a' =? b')%float = (a =? b)%float.
Proof. exact eqb_scaled. Qed.
Theorem C14_fast_stream_pow2_binary64 : forall k xs xs' s s', rel_fast k s s' -> Forall2 (scaled k) xs xs' -> fast_run_ok k s xs ->
  Forall2 (scaled 0) (fast_outs FOps s xs) (fast_outs FOps s' xs').
Proof. exact fast_stream_pow2. Qed.

(* ... and SlowStochastic (EMA of %K) over whole streams: unchanged *)
From TA Require Import Proofs.FloatScaleSlow.
Theorem C14_slow_stream_pow2_binary64 : forall k xs xs' s s', rel_slow k s s' -> Forall2 (scaled k) xs xs' -> slow_run_ok k s xs ->
  Forall2 (scaled 0) (slow_outs FOps s xs) (slow_outs FOps s' xs').
Proof. exact slow_stream_pow2. Qed.
