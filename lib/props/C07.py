# C07 — Bounded oscillators stay inside their documented range
from props.util import *

aux_big = True   # also run the auxiliary big-period family (periods 2500 / 4100, two ring wraps) through the bit-exact tie
rule = ("RSI, FAST (scalars and bars with low <= close <= high), SLOW, MFI in [0,100] and ER in [0,1], slack 1e-9 (MFI: 100*tau(t)*c, claimed for "
        "c <= 1000), at every step whose reference denominator is non-zero: regimes trending / oscillating / gapping / nearly flat / widely "
        "varying volume / periodic, periods 1..8 and sampled to 512, 60..2000 steps; all runs also compared bit-exactly with the float model. "
        "Plus 4300-input runs (plain and with 1e9 spikes) of every oscillator, and, for every indicator and periods {1,2,3,5,8}, a 1e9 gap followed by a monotone ramp (seed-independent). Every third case also runs as a copy with one reset() after the window has wrapped (the range holds for the whole life of an instance). "
        "Non-trivial: distinct case longer than twice the period")
assumptions = ["steps with a zero reference denominator (flat window, zero flow) belong to C08 and are skipped here: detected from the "
               "implementation's own window (max == min; sum of |moves| == 0; no flow in the window)"]

KINDS = ["RSI", "FAST", "SLOW", "MFI", "ER"]


def gen_cases(ctx):
    r = ctx.rng
    rot = Rot(r)
    cases = []
    for ind in KINDS:
        periods = list(range(1, 9)) + [r.choice([14, 50, 200, 512]) for _ in range(1 if not ctx.thorough else 4)]
        for pi, p in enumerate(periods):
            for rep in range(3 if not ctx.thorough else 8):
                n = r.choice([60, 200]) if p <= 8 else min(3 * p + 50, 2000)
                pr = (p, r.choice([1, 3, 5]) if ind == "SLOW" else 0, 0, 0.0)
                bars = ind == "MFI" or (ind in ("FAST", "SLOW") and rep % 2 == 1)
                if bars:
                    st = rot.pick((ind, "b"), ["walk", "segments", "gaps", "grid", "tinybars", "ulpbars"])
                    feeds = [("b", 0) + b for b in bar_stream(r, n, st, p=p)]
                else:
                    st = rot.pick((ind, "n"), ["walk", "ties", "periodic", "pgrid", "flatafter", "segments", "uniform", "tiny", "huge", "crash", "ulps", "tight"])
                    feeds = [("n", 0, x) for x in scalar_stream(r, n, st, p=p, positive=True)]
                if rep % 3 == 2:
                    feeds = sprinkle_serde(feeds, r)
                cases.append(Case("%s_i%d_p%d_%d" % (ind, pi, p, rep), [new_op(0, ind, pr)] + feeds, dump=(),
                                  meta={"ind": ind, "p": p, "n": n, "style": st}))
    # seed-independent: a huge gap followed by a long monotone ramp (a running volatility / flow sum that is never re-synchronised with
    # its window keeps the rounding residue of the gap: ratios then leave their range once the window is monotone)
    for ind in KINDS:
        for p in (1, 2, 3, 5, 8):
            xs = [1.3, 1e9, 1.3] + [1.31 + 0.01 * k for k in range(3 * p + 12)]
            pr = (p, 3 if ind == "SLOW" else 0, 0, 0.0)
            if ind == "MFI":
                feeds = [("b", 0, x, x * 1.001, x * 0.999, x, 10.0) for x in xs]
            else:
                feeds = [("n", 0, x) for x in xs]
            cases.append(Case("%s_gap_p%d" % (ind, p), [new_op(0, ind, pr)] + feeds, dump=(),
                              meta={"ind": ind, "p": p, "n": len(xs), "style": "gapramp"}))
    # seed-independent long runs: maintenance code that only executes every 2^10 / 2^12 updates
    for ind in KINDS:
        for kind in ("plain", "spike"):
            fd = long_feed("MFI" if ind == "MFI" else "SMA", 4300, kind)
            cases.append(Case("%s_long_%s" % (ind, kind), [new_op(0, ind, long_params(ind, 3))] + fd, dump=(),
                              meta={"ind": ind, "p": 3, "n": 4300, "style": "long-" + kind}))
    return sprinkle_resets(cases)


def nontrivial(c):
    return c.meta["n"] > 2 * c.meta["p"]


def tau(t):
    return 1e-12 + 1e-15 * t ** 1.5


def check_impl(ctx, cases):
    out = []
    nchk = 0
    for c in cases:
        ind, p = c.meta["ind"], c.meta["p"]
        hi = 1.0 if ind == "ER" else 100.0
        allops = c.ops[1:]
        feeds = []          # the inputs fed so far (serde round-trips and other non-feeding ops are not inputs)
        flowmax = 0.0
        for o, ob in zip(allops, c.obs[1:]):
            if o[0] == "r":          # reset: the instance starts a new life, the reference window too
                feeds = []
                flowmax = 0.0
                continue
            v = f_of(ob)
            if v is None:
                continue
            feeds.append(o)
            t = len(feeds)
            x = v[0]
            if o[0] == "b":
                tp = (o[5] + o[3] + o[4]) / 3.0
                flowmax = max(flowmax, abs(tp * o[6]))
            slack = 1e-9
            # denominators (from the inputs): skip degenerate windows
            win = feeds[max(0, t - p - 1):t]
            if ind in ("FAST", "SLOW"):
                w = feeds[max(0, t - p):t]
                lo = min((b[4] if b[0] == "b" else b[2]) for b in w)
                hi_ = max((b[3] if b[0] == "b" else b[2]) for b in w)
                if ind == "FAST" and hi_ == lo:
                    if x != 50.0:
                        out.append(Violation("FAST(%d): window max == min at step %d but the output is %r, not 50" % (p, t, x), case=c))
                        break
                    continue
            elif ind == "ER":
                w = feeds[max(0, t - p - 1):t]
                vol = sum(abs(w[q + 1][2] - w[q][2]) for q in range(len(w) - 1))
                if vol == 0.0 and t > 1:
                    continue
            elif ind == "MFI":
                w = feeds[max(0, t - p - 1):t]
                tps = [(b[5] + b[3] + b[4]) / 3.0 for b in w]
                flows = [abs(tps[q] * w[q][6]) for q in range(1, len(w)) if tps[q] != tps[q - 1]]
                tot = sum(flows)
                if tot == 0.0 or flowmax / tot > 1000:
                    continue
                slack = max(1e-9, 100 * tau(t) * (flowmax / tot))
            elif ind == "RSI":
                if x != x and t > 1:
                    # zero denominator: only legitimate when every move so far is zero-ish (flat) -> C08
                    continue
            nchk += 1
            if x != x or not (-slack <= x <= hi + slack):
                out.append(Violation("%s(%d): output %r at step %d is outside [0, %g] (slack %.3g) although the reference denominator is non-zero"
                                     % (ind, p, x, t, hi, slack), case=c))
                break
        if len(out) > 10:
            break
    ctx.stats["range_checks"] = nchk
    return out
