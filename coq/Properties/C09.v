(* C09 — Dispersion measures are non-negative and bands are ordered around their middle. Statements only. *)
From Coq Require Import Reals.
From TA Require Import Base Model XR Proofs.Ring Proofs.XBase Proofs.XSma Proofs.XWma Proofs.XMad Proofs.XSd Proofs.MinMaxProofs
  Proofs.Wiring Proofs.XEma Proofs.XCor Proofs.XBands.
Open Scope R_scope.

(* histograms equal line - signal with no slack at all: any number type, hence bit-exact for binary64 *)
Theorem C09_macd_histogram : forall (F : Type) (O : Ops F) (s : @Macd F) x, let o := snd (macd_next O s x) in
  nth 2 o (zero O) = sub O (nth 0 o (zero O)) (nth 1 o (zero O)).
Proof. exact (@macd_histogram). Qed.
Theorem C09_ppo_histogram : forall (F : Type) (O : Ops F) (s : @Ppo F) x, let o := snd (ppo_next O s x) in
  nth 2 o (zero O) = sub O (nth 0 o (zero O)) (nth 1 o (zero O)).
Proof. exact (@ppo_histogram). Qed.

(* Minimum <= Maximum over the same window: the least and the greatest element of one list (any order) *)
Theorem C09_min_le_max : forall (F : Type) (O : Ops F) (l : list F) a b,
  least_in O l a -> greatest_in O l b -> ltb O b a = false.
Proof. exact (@min_le_max). Qed.

(* exact arithmetic, all finite inputs: SD and MAD are >= 0 and never NaN *)
Theorem C09_sd_nonneg : forall p s xs, sd_new XROps p = Ok s -> Forall fin_ge0 (XSd.sd_outs s (map Fin xs)).
Proof. exact sd_nonneg. Qed.
Theorem C09_mad_nonneg : forall p s xs, mad_new XROps p = Ok s -> Forall fin_ge0 (XMad.mad_outs s (map Fin xs)).
Proof. exact mad_nonneg. Qed.

(* lower <= average <= upper for every finite multiplier >= 0 (incl. 0 and huge) *)
Theorem C09_bb_ordered : forall p mu s xs, bb_new XROps p (Fin mu) = Ok s -> 0 <= mu ->
  Forall (fun o => exists a u l, o = [Fin a; Fin u; Fin l] /\ l <= a <= u) (XSd.bb_outs s (map Fin xs)).
Proof. exact bb_ordered. Qed.

(* SMA and WMA lie within the range of their inputs (hence within [window min, window max] by C17),
   EMA within [history min, history max] *)
Theorem C09_sma_between : forall p s xs lo hi, sma_new XROps p = Ok s -> all_between lo hi xs ->
  Forall (fun o => exists r, o = Fin r /\ lo <= r <= hi) (sma_outs s (map Fin xs)).
Proof. exact sma_between. Qed.
Theorem C09_wma_between : forall p s xs lo hi, wma_new XROps p = Ok s -> all_between lo hi xs ->
  Forall (fun o => exists r, o = Fin r /\ lo <= r <= hi) (wma_outs s (map Fin xs)).
Proof. exact wma_between. Qed.
Theorem C09_ema_between : forall p s xs lo hi, ema_new XROps p = Ok s -> (forall y, In y xs -> lo <= y <= hi) ->
  Forall (fun o => exists r, o = Fin r /\ lo <= r <= hi) (ema_outs XROps s (map Fin xs)).
Proof. exact ema_between. Qed.

(* TrueRange >= 0 for bars with low <= high *)
Theorem C09_tr_nonneg : forall (t : @Tr XR) h l c, l <= h ->
  (match tr_prev_close t with Some (Fin _) | None => True | _ => False end) ->
  exists r, snd (tr_next_bar XROps t (mkBar (Fin 0) (Fin h) (Fin l) (Fin c) (Fin 0))) = Fin r /\ 0 <= r.
Proof. exact tr_bar_nonneg. Qed.

(* AverageTrueRange >= 0, KeltnerChannel bands ordered, ChandelierExit inside the window extremes: bars with finite prices and
   low <= high ([mkb (h,l,c)] is the bar; open and volume are not read), every period, every finite multiplier >= 0 *)
Theorem C09_atr_nonneg : forall p a bars, atr_new XROps p = Ok a -> Forall valid bars ->
  exists rs, atr_bar_outs XROps a (map mkb bars) = map Fin rs /\ length rs = length bars /\ forall r, In r rs -> 0 <= r.
Proof. exact atr_bar_nonneg. Qed.
Theorem C09_kc_ordered : forall p mu k bars, kc_new XROps p (Fin mu) = Ok k -> 0 <= mu -> Forall valid bars ->
  Forall (fun o => exists a u l, o = [Fin a; Fin u; Fin l] /\ l <= a <= u) (kc_bar_outs XROps k (map mkb bars)).
Proof. exact kc_bar_ordered. Qed.
Theorem C09_ce_bounds : forall p mu c bars, ce_new XROps p (Fin mu) = Ok c -> 0 <= mu -> Forall valid bars ->
  let highs := map (fun b : rbar => fst (fst b)) bars in
  let lows := map (fun b : rbar => snd (fst b)) bars in
  forall k, (k < length bars)%nat ->
    exists lg sh mx mn, nth k (ce_outs XROps c (map mkb bars)) [] = [Fin lg; Fin sh] /\
      In mx (lastn (N.to_nat p) (firstn (S k) highs)) /\ (forall y, In y (lastn (N.to_nat p) (firstn (S k) highs)) -> y <= mx) /\
      In mn (lastn (N.to_nat p) (firstn (S k) lows)) /\ (forall y, In y (lastn (N.to_nat p) (firstn (S k) lows)) -> mn <= y) /\
      lg <= mx /\ mn <= sh.
Proof. exact ce_bounds. Qed.

(* ---- refuted at the edge of the binary64 range (known finding K8): StandardDeviation fed the finite inputs
        1.7e308, -1.7e308, 1.7e308 returns NaN (inf - inf in the running sum of squares), for period 1, 2 and 3 ---- *)
From Coq Require Import Floats List.
From TA Require Import Generic FloatInst Run.
Theorem C09_K8_sd_overflow_nan :
  map (fun p => map PrimFloat.is_nan (last_out [oN 0 KSd (Pm p 0 0 0); oX 0 1.7e308; oX 0 (-1.7e308); oX 0 1.7e308])) [1%N; 2%N; 3%N]
  = [[true]; [true]; [true]].
Proof. vm_compute. reflexivity. Qed.

(* ---- ... and PROVED below 2^400 (binary64, Flocq): for every period < 2^53 and every stream of at most 2^40 - 2 finite inputs
        of magnitude at most M, 1 <= M <= 2^400, every StandardDeviation output is a finite number >= 0 — never NaN ---- *)
From Coq Require Import Reals.
From Flocq Require Import Core.
From TA Require Import Proofs.Wiring Proofs.FloatErr Proofs.FloatSma Proofs.FloatSd.
Theorem C09_sd_binary64_never_nan : forall p s xs M, sd_new FOps p = Ok s -> (p < 9007199254740992)%N ->
  (1 <= M)%R -> (M <= bpow radix2 400)%R -> Forall (okin M) xs -> (INR (length xs) + 2 <= bpow radix2 40)%R ->
  Forall (fun o => finF o /\ (0 <= FR o)%R) (Wiring.sd_outs FOps s xs).
Proof. exact sd_float_never_nan. Qed.
From TA Require Import Proofs.FloatMad.
Theorem C09_mad_binary64_never_nan : forall p s xs M, mad_new FOps p = Ok s -> (p < 1125899906842624)%N ->
  (1 <= M)%R -> (M <= bpow radix2 400)%R -> Forall (okin M) xs -> (INR (length xs) + 2 <= bpow radix2 40)%R ->
  Forall (fun o => finF o /\ (0 <= FR o)%R) (Wiring.mad_outs FOps s xs).
Proof. exact mad_float_never_nan. Qed.
(* BollingerBands on binary64: every band finite and lower <= average <= upper EXACTLY on the floats, for every period < 2^53,
   every finite multiplier in [0, 2^400] and every stream of at most 2^40 - 2 finite inputs of magnitude at most M <= 2^400 *)
From TA Require Import Proofs.FloatBb.
Theorem C09_bb_binary64_ordered : forall p mu b xs M, bb_new FOps p mu = Ok b -> (p < 9007199254740992)%N ->
  finF mu -> (0 <= FR mu <= bpow radix2 400)%R ->
  (1 <= M)%R -> (M <= bpow radix2 400)%R -> Forall (okin M) xs -> (INR (length xs) + 2 <= bpow radix2 40)%R ->
  Forall (fun o => exists a up lo, o = [a; up; lo] /\ finF a /\ finF up /\ finF lo /\ (FR lo <= FR a <= FR up)%R)
         (Wiring.bb_outs FOps b xs).
Proof. exact bb_float_ordered. Qed.
(* AverageTrueRange and KeltnerChannel (scalar path) on binary64, streams of ANY length: the ATR is a finite float >= 0, and every
   KeltnerChannel band is finite with lower <= average <= upper exactly *)
From TA Require Import Proofs.FloatKc.
Theorem C09_atr_binary64_nonneg : forall p a xs M, atr_new FOps p = Ok a -> (p < 35184372088832)%N ->
  (1 <= M)%R -> (8 * M <= bpow radix2 990)%R -> Forall (okin M) xs ->
  length (Wiring.atr_outs FOps a xs) = length xs /\
  Forall (fun o => finF o /\ (0 <= FR o <= 6 * M)%R) (Wiring.atr_outs FOps a xs).
Proof. exact atr_float_nonneg. Qed.
Theorem C09_kc_binary64_ordered : forall p mu k xs M, kc_new FOps p mu = Ok k -> (p < 35184372088832)%N ->
  finF mu -> (0 <= FR mu <= bpow radix2 400)%R ->
  (1 <= M)%R -> (M <= bpow radix2 400)%R -> Forall (okin M) xs ->
  length (Wiring.kc_outs FOps k xs) = length xs /\
  Forall (fun o => exists a up lo, o = [a; up; lo] /\ finF a /\ finF up /\ finF lo /\ (FR lo <= FR a <= FR up)%R)
         (Wiring.kc_outs FOps k xs).
Proof. exact kc_float_ordered. Qed.
(* the bar paths on binary64 (bars with finite prices of magnitude at most M, low <= high), streams of ANY length, periods < 2^45:
   ATR is finite and >= 0; KeltnerChannel bands are finite with lower <= average <= upper; ChandelierExit's long stop never exceeds
   the greatest high of the window and its short stop is never below the least low — all exactly, no slack *)
From TA Require Import Proofs.MinMaxProofs Proofs.FloatOrder Proofs.FloatBars.
Theorem C09_atr_bar_binary64_nonneg : forall p a bars M, atr_new FOps p = Ok a -> (p < 35184372088832)%N ->
  (1 <= M)%R -> (8 * M <= bpow radix2 990)%R -> Forall (okbar M) bars ->
  length (Wiring.atr_bar_outs FOps a bars) = length bars /\
  Forall (fun o => finF o /\ (0 <= FR o <= 6 * M)%R) (Wiring.atr_bar_outs FOps a bars).
Proof. exact atr_bar_float_nonneg. Qed.
Theorem C09_okbar_def : forall M b, okbar M b <->
  (okin M (b_high b) /\ okin M (b_low b) /\ okin M (b_close b) /\ (FR (b_low b) <= FR (b_high b))%R).
Proof. intros. reflexivity. Qed.
Theorem C09_kc_bar_binary64_ordered : forall p mu k bars M, kc_new FOps p mu = Ok k -> (p < 35184372088832)%N ->
  finF mu -> (0 <= FR mu <= bpow radix2 400)%R -> (1 <= M)%R -> (M <= bpow radix2 400)%R -> Forall (okbar M) bars ->
  length (Wiring.kc_bar_outs FOps k bars) = length bars /\
  Forall (fun o => exists a up lo, o = [a; up; lo] /\ finF a /\ finF up /\ finF lo /\ (FR lo <= FR a <= FR up)%R)
         (Wiring.kc_bar_outs FOps k bars).
Proof. exact kc_bar_float_ordered. Qed.
Theorem C09_ce_binary64_bounds : forall p mu c bars M, ce_new FOps p mu = Ok c -> (p < 35184372088832)%N ->
  finF mu -> (0 <= FR mu <= bpow radix2 400)%R -> (1 <= M)%R -> (M <= bpow radix2 400)%R -> Forall (okbar M) bars ->
  Forall okF (map b_high bars) -> Forall okF (map b_low bars) ->
  let highs := map b_high bars in let lows := map b_low bars in
  forall k, (k < length bars)%nat ->
    exists lg sh mx mn, nth k (Wiring.ce_outs FOps c bars) [] = [lg; sh] /\ finF lg /\ finF sh /\
      greatest_in FOps (Ring.lastn (N.to_nat p) (firstn (S k) highs)) mx /\ least_in FOps (Ring.lastn (N.to_nat p) (firstn (S k) lows)) mn /\
      (FR lg <= FR mx)%R /\ (FR mn <= FR sh)%R.
Proof. exact ce_float_bounds. Qed.
(* averages on binary64 stay between the extremes of what they average, up to their PROVED rounding error: SMA within [min, max] of the
   window +- ((9t+1) 2^-53 M + (5t+1) 2^-1075), WMA likewise with its (quadratic) bound, EMA within the extremes of the whole history
   +- 17 (n+1) 2^-53 M for streams of any length *)
From TA Require Import Proofs.FloatEma Proofs.FloatWma Proofs.FloatBetween.
Theorem C09_sma_binary64_between : forall p s xs M lo hi, sma_new FOps p = Ok s -> (p < 9007199254740992)%N -> (0 <= M)%R ->
  Forall (okin M) xs -> (3 * ((INR (N.to_nat p) + 2) * M + 1) <= BIG)%R -> (INR (length xs) * u <= / 16)%R ->
  Forall (fun x => (lo <= FR x <= hi)%R) xs ->
  Forall2 (fun o hh => finF o /\ (lo - out_bound M (length hh) <= FR o <= hi + out_bound M (length hh))%R)
          (Wiring.sma_outs' FOps s xs) (XSma.prefixes_from [] xs).
Proof. exact sma_float_between. Qed.
Theorem C09_wma_binary64_between : forall p s xs M lo hi, wma_new FOps p = Ok s -> (p < 67108864)%N ->
  (1 <= M)%R -> (M <= bpow radix2 400)%R -> Forall (okin M) xs -> (INR (length xs) * u <= / 64)%R ->
  Forall (fun x => (lo <= FR x <= hi)%R) xs ->
  Forall2 (fun o hh => finF o /\ (lo - wma_bound M (N.to_nat p) (length hh) <= FR o <= hi + wma_bound M (N.to_nat p) (length hh))%R)
          (Wiring.res_outs (wma_next FOps) s xs) (XSma.prefixes_from [] xs).
Proof. exact wma_float_between. Qed.
Theorem C09_ema_binary64_between : forall p s xs M lo hi, ema_new FOps p = Ok s -> (p < 140737488355328)%N ->
  (bpow radix2 (-960) <= M)%R -> (M <= bpow radix2 990)%R -> Forall (okin M) xs -> Forall (fun x => (lo <= FR x <= hi)%R) xs ->
  Forall (fun o => finF o /\ (lo - 17 * (IZR (Z.of_N p) + 1) * u * M <= FR o <= hi + 17 * (IZR (Z.of_N p) + 1) * u * M)%R)
         (Wiring.ema_outs FOps s xs).
Proof. exact ema_float_between. Qed.
