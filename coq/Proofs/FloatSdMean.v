(* The running mean kept by StandardDeviation (Welford update; it is BollingerBands.average) on binary64: within 14 t u M of the
   exact mean of the last min(t,n) inputs after t inputs.  Hence |BollingerBands.average - SimpleMovingAverage| on the same
   inputs is within the tolerance tau(t) M of property C15 / C01. *)
From Coq Require Import Reals Lra Lia ZArith List Floats.
From Flocq Require Import Core.
From TA Require Import Base Model FloatInst Proofs.Prims Proofs.WF Proofs.Ring Proofs.XBase Proofs.FloatErr Proofs.FloatSma Proofs.FloatEma Proofs.FloatSd.
Import ListNotations.
Open Scope R_scope.
Local Notation O := FOps.
Local Notation float := PrimFloat.float.

(* ---- real facts about the mean of a sliding window ---- *)
Lemma mean_nil : mean [] = 0. Proof. unfold mean, Rdiv. cbn. lra. Qed.

Lemma mean_snoc w x : mean (w ++ [x]) = mean w + (x - mean w) / (INR (length w) + 1).
Proof.
  unfold mean. rewrite app_length, Rsum_app. cbn [length Rsum]. rewrite Nat.add_1_r, S_INR.
  destruct w as [|a w0].
  - cbn. unfold Rdiv. rewrite !Rmult_0_l. field.
  - set (k := INR (length (a :: w0))) in *.
    assert (1 <= k) by (unfold k; cbn [length]; rewrite S_INR; pose proof (pos_INR (length w0)); lra). field. lra.
Qed.

Lemma mean_slide w x : w <> [] -> mean (tl w ++ [x]) = mean w + (x - hd 0 w) / INR (length w).
Proof.
  intros Hw. destruct w as [|a w0]; [congruence|]. unfold mean. cbn [tl hd]. rewrite app_length, Rsum_app. cbn [length Rsum].
  rewrite Nat.add_1_r. set (k := INR (S (length w0))). assert (1 <= k) by (unfold k; rewrite S_INR; pose proof (pos_INR (length w0)); lra).
  field. lra.
Qed.

Lemma mean_abs_le (l : list float) M : 0 <= M -> Forall (okin M) l -> Rabs (mean (map FR l)) <= M.
Proof.
  intros HM H. destruct l as [|a l0]; [cbn [map]; rewrite mean_nil, Rabs_R0; exact HM|].
  unfold mean. rewrite map_length. set (k := INR (length (a :: l0))).
  assert (Hk : 1 <= k) by (unfold k; cbn [length]; rewrite S_INR; pose proof (pos_INR (length l0)); lra).
  unfold Rdiv. rewrite Rabs_mult, (Rabs_pos_eq (/ k)) by (apply Rlt_le, Rinv_0_lt_compat; lra).
  apply Rle_trans with (k * M * / k); [apply Rmult_le_compat_r; [apply Rlt_le, Rinv_0_lt_compat; lra|apply Rsum_abs_le; exact H]|].
  field_simplify; lra.
Qed.

(* ---- the shape of one StandardDeviation step ---- *)
Lemma sd_next_shape s x s' o : wf_sd s -> sd_next O s x = Ok (s', o) ->
  let old := hd 0%float (rot (N.to_nat (sd_index s)) (sd_deque s)) in
  sd_period s' = sd_period s /\
  rot (N.to_nat (sd_index s')) (sd_deque s') = tl (rot (N.to_nat (sd_index s)) (sd_deque s)) ++ [x] /\
  (if (sd_count s <? sd_period s)%N
   then sd_count s' = (sd_count s + 1)%N /\ sd_m s' = (sd_m s + (x - sd_m s) / f_ofN (sd_count s + 1))%float
   else sd_count s' = sd_count s /\ sd_m s' = (sd_m s + (x - old) / f_ofN (sd_period s))%float).
Proof.
  intros (H1 & H2 & H3 & H4 & H5) H old.
  destruct (ring_step (sd_deque s) (sd_period s) (sd_index s) x 0%float H1 H3 H2 H5) as (E1 & E2 & E3 & E4 & E5).
  unfold sd_next in H. rewrite E1, E2, E3 in H. cbn [bind] in H. fold old in H.
  destruct (N.ltb_spec (sd_count s) (sd_period s)) as [Hlt|Hge].
  - rewrite uadd_ok in H by (unfold ALLOC_MAX, USIZE_MAX in *; lia). cbn [bind] in H. injection H as <- <-.
    cbn [sd_period sd_index sd_deque sd_count sd_m]. split; [reflexivity|]. split; [exact E5|]. split; reflexivity.
  - cbn [bind] in H. injection H as <- <-.
    cbn [sd_period sd_index sd_deque sd_count sd_m]. split; [reflexivity|]. split; [exact E5|]. split; reflexivity.
Qed.

Definition fsdm_inv (s : @Sd float) (h : list float) (E : R) : Prop :=
  let p := N.to_nat (sd_period s) in
  rot (N.to_nat (sd_index s)) (sd_deque s) = lastn p (padded 0%float p h) /\
  sd_count s = N.of_nat (Nat.min (length h) p) /\
  Rabs (FR (sd_m s) - mean (map FR (lastn p h))) <= E.

(* one float update  m + (x - y) / c  against  mu + (x - yr) / c  *)
Lemma mean_update (m x y : float) (c : N) (mu yr E M : R) : 1 <= M -> M <= bpow radix2 990 -> 0 <= E <= M ->
  finF m -> finF x -> finF y -> (0 < c < 9007199254740992)%N ->
  Rabs (FR x) <= M -> Rabs mu <= M -> Rabs yr <= M -> Rabs (mu + (FR x - yr) / IZR (Z.of_N c)) <= M ->
  Rabs (FR m - mu) <= E -> FR y - yr = FR m - mu \/ FR y = yr ->
  let m' := (m + (x - y) / f_ofN c)%float in
  finF m' -> Rabs (FR m' - (mu + (FR x - yr) / IZR (Z.of_N c))) <= E + 14 * u * M.
Proof.
  intros HM1 HMu [HE0 HE] Fm Fx Fy [Hc0 Hc] Hx Hmu Hyr Hmu' Hm Hy m' Fm'.
  pose proof u_pos as Hu0. pose proof u_le as Hu1. pose proof eta_pos as He0. pose proof eta_le_u as Heu. pose proof BIG_ge as HBg.
  assert (HuM : u * M <= M / 1000) by (replace (M / 1000) with (/ 1000 * M) by field; apply Rmult_le_compat_r; lra).
  assert (HuM0 : 0 <= u * M) by (apply Rmult_le_pos; lra).
  assert (HeM : eta <= u * M) by (apply Rle_trans with (u * 1); [lra|apply Rmult_le_compat_l; lra]).
  assert (HBIG : 8 * M <= BIG).
  { unfold BIG. apply Rle_trans with (8 * bpow radix2 990); [lra|]. change 8 with (bpow radix2 3). rewrite <- bpow_plus. apply bpow_le. lia. }
  set (cr := IZR (Z.of_N c)) in *. assert (Hcr : 1 <= cr) by (unfold cr; apply IZR_le; lia).
  assert (Hic : 0 < / cr <= 1) by (split; [apply Rinv_0_lt_compat; lra|rewrite <- Rinv_1; apply Rinv_le_contravar; lra]).
  set (e := FR m - mu) in *. set (ey := FR y - yr).
  assert (Hey : Rabs ey <= E) by (unfold ey; destruct Hy as [-> | ->]; [exact Hm|rewrite Rminus_diag_eq, Rabs_R0 by reflexivity; exact HE0]).
  assert (Hyb : Rabs (FR y) <= 2 * M) by (replace (FR y) with (ey + yr) by (unfold ey; ring); eapply Rle_trans; [apply Rabs_triang|]; lra).
  assert (Hmb : Rabs (FR m) <= 2 * M) by (replace (FR m) with (e + mu) by (unfold e; ring); eapply Rle_trans; [apply Rabs_triang|]; lra).
  assert (Hd : Rabs (FR x - FR y) <= 3 * M) by (eapply Rle_trans; [apply Rabs_triang|]; rewrite Rabs_Ropp; lra).
  destruct (fsub_err x y Fx Fy) as (Fd & e1 & n1 & He1 & Hn1 & R1); [lra|].
  set (d := (x - y)%float) in *.
  assert (Hdm : Rabs (FR d) <= 4 * M).
  { eapply Rle_trans; [apply (mag_of_err _ _ _ _ R1 He1 Hn1)|]. assert (Rabs (FR x - FR y) * (1 + u) <= 3 * M * (1 + u)) by (apply Rmult_le_compat_r; lra).
    assert (3 * M * u <= 3 * (M / 1000)) by lra. lra. }
  destruct (fdiv_count d c Fd (conj Hc0 Hc)) as (Fq & e2 & n2 & He2 & Hn2 & R2); [lra|]. fold cr in R2.
  set (q := (d / f_ofN c)%float) in *.
  assert (Hdq : Rabs (FR d / cr) <= 4 * M).
  { unfold Rdiv. rewrite Rabs_mult, (Rabs_pos_eq (/ cr)) by lra. apply Rle_trans with (Rabs (FR d) * 1); [apply Rmult_le_compat_l; [apply Rabs_pos|lra]|lra]. }
  (* error of q against (x - yr)/c - ey/c *)
  assert (Eq1 : Rabs (FR q - (FR x - FR y) / cr) <= 9 * (u * M)).
  { rewrite R2. replace (FR d / cr * (1 + e2) + n2 - (FR x - FR y) / cr) with ((FR d - (FR x - FR y)) / cr + FR d / cr * e2 + n2) by (field; lra).
    eapply Rle_trans; [apply Rabs_triang|]. eapply Rle_trans; [apply Rplus_le_compat_r, Rabs_triang|]. rewrite (Rabs_mult (FR d / cr)).
    assert (A1 : Rabs (FR d - (FR x - FR y)) <= 3 * (u * M) + eta).
    { rewrite R1. replace ((FR x - FR y) * (1 + e1) + n1 - (FR x - FR y)) with ((FR x - FR y) * e1 + n1) by ring.
      eapply Rle_trans; [apply Rabs_triang|]. rewrite Rabs_mult.
      assert (Rabs (FR x - FR y) * Rabs e1 <= 3 * M * u) by (apply Rmult_le_compat; try apply Rabs_pos; assumption). lra. }
    assert (A2 : Rabs ((FR d - (FR x - FR y)) / cr) <= 3 * (u * M) + eta).
    { unfold Rdiv. rewrite Rabs_mult, (Rabs_pos_eq (/ cr)) by lra. apply Rle_trans with (Rabs (FR d - (FR x - FR y)) * 1); [apply Rmult_le_compat_l; [apply Rabs_pos|lra]|lra]. }
    assert (A3 : Rabs (FR d / cr) * Rabs e2 <= 4 * M * u) by (apply Rmult_le_compat; try apply Rabs_pos; assumption). lra. }
  (* the exact target in terms of e and ey *)
  set (tgt := mu + (FR x - yr) / cr) in *.
  assert (Hsum : FR m + (FR x - FR y) / cr = tgt + (e - ey / cr)) by (unfold tgt, e, ey; field; lra).
  assert (Hcomb : Rabs (e - ey / cr) <= E).
  { destruct Hy as [Hy|Hy].
    - assert (ey = e) by (unfold ey, e; exact Hy). rewrite H. replace (e - e / cr) with (e * (1 - / cr)) by (field; lra).
      rewrite Rabs_mult, (Rabs_pos_eq (1 - / cr)) by lra. apply Rle_trans with (Rabs e * 1); [apply Rmult_le_compat_l; [apply Rabs_pos|lra]|lra].
    - assert (ey = 0) by (unfold ey; rewrite Hy; ring). rewrite H. replace (e - 0 / cr) with e by (field; lra). exact Hm. }
  assert (Hmq : Rabs (FR m + FR q) <= 3 * M).
  { replace (FR m + FR q) with (tgt + (e - ey / cr) + (FR q - (FR x - FR y) / cr)) by (rewrite <- Hsum; ring).
    eapply Rle_trans; [apply Rabs_triang|]. eapply Rle_trans; [apply Rplus_le_compat_r, Rabs_triang|]. lra. }
  destruct (fadd_err m q Fm Fq) as (_ & e3 & n3 & He3 & Hn3 & R3); [lra|].
  unfold m'. fold d. fold q. rewrite R3.
  replace ((FR m + FR q) * (1 + e3) + n3 - tgt) with ((e - ey / cr) + (FR q - (FR x - FR y) / cr) + (FR m + FR q) * e3 + n3) by (replace (e - ey / cr) with (FR m + (FR x - FR y) / cr - tgt) by lra; ring).
  eapply Rle_trans; [apply Rabs_triang|]. eapply Rle_trans; [apply Rplus_le_compat_r, Rabs_triang|]. eapply Rle_trans; [apply Rplus_le_compat_r, Rplus_le_compat_r, Rabs_triang|].
  rewrite (Rabs_mult (FR m + FR q)).
  assert (Rabs (FR m + FR q) * Rabs e3 <= 3 * M * u) by (apply Rmult_le_compat; try apply Rabs_pos; assumption). lra.
Qed.

Lemma INR_N (n : nat) : IZR (Z.of_N (N.of_nat n)) = INR n.
Proof. rewrite nat_N_Z. symmetry. apply INR_IZR_INZ. Qed.

Lemma fsdm_step M s h x E s' o : 1 <= M -> M <= bpow radix2 400 -> (sd_period s < 9007199254740992)%N ->
  fsd_inv M s (length h) -> fsdm_inv s h E -> 0 <= E <= M -> Forall (okin M) h -> okin M x ->
  sd_next O s x = Ok (s', o) -> fsd_inv M s' (S (length h)) ->
  fsdm_inv s' (h ++ [x]) (E + 14 * u * M).
Proof.
  intros HM1 HM2 Hp53 (Wf & _ & Fm & _) (Hrot & Hcnt & Hm) HE Hh [Fx Hx] Hnext (_ & _ & Fm' & _).
  pose proof Wf as (H1 & H2 & H3 & H4 & H5).
  assert (HM990 : M <= bpow radix2 990) by (eapply Rle_trans; [exact HM2|apply bpow_le; lia]).
  assert (HM0 : 0 <= M) by lra.
  destruct (sd_next_shape s x s' o Wf Hnext) as (Pe & Hrot' & Hcase). cbv zeta in Hcase.
  unfold fsdm_inv. rewrite Pe. set (p := N.to_nat (sd_period s)) in *.
  assert (Hp : (1 <= p)%nat) by (unfold p; lia).
  split; [rewrite Hrot', Hrot, lastn_padded_snoc by exact Hp; reflexivity|].
  set (w := lastn p h) in *.
  assert (Fw : Forall (okin M) w) by (apply Forall_lastn; exact Hh).
  assert (Fw' : Forall (okin M) (lastn p (h ++ [x]))) by (apply Forall_lastn, Forall_app; split; [exact Hh|constructor; [split; assumption|constructor]]).
  pose proof (mean_abs_le w M HM0 Fw) as Hmu. pose proof (mean_abs_le _ M HM0 Fw') as Hmu'.
  destruct (N.ltb_spec (sd_count s) (sd_period s)) as [Hlt|Hge]; destruct Hcase as [Hc' Em'].
  - (* warm-up *)
    assert (Hlen : (length h < p)%nat) by (unfold p in *; lia).
    assert (Ew : w = h) by (unfold w; apply lastn_all; lia).
    assert (Ew' : lastn p (h ++ [x]) = w ++ [x]) by (unfold w; apply lastn_snoc_short; exact Hlen).
    split; [rewrite Hc', Hcnt, app_length; cbn [length]; lia|].
    rewrite Ew', map_app in *. cbn [map] in *. rewrite mean_snoc in *. rewrite map_length in *.
    assert (Ec : IZR (Z.of_N (sd_count s + 1)) = INR (length w) + 1).
    { rewrite Hcnt, Ew. replace (N.of_nat (Nat.min (length h) p) + 1)%N with (N.of_nat (S (length h))) by lia. rewrite INR_N, S_INR. reflexivity. }
    rewrite <- Ec in *. rewrite Em'.
    apply (mean_update (sd_m s) x (sd_m s) (sd_count s + 1)%N (mean (map FR w)) (mean (map FR w)) E M HM1 HM990 HE Fm Fx Fm); try assumption.
    + unfold p in *; lia.
    + left. reflexivity.
    + rewrite <- Em'. exact Fm'.
  - (* sliding *)
    assert (Hlen : (p <= length h)%nat) by (unfold p in *; lia).
    assert (Lw : length w = p) by (unfold w; rewrite lastn_length; lia).
    assert (Hw : w <> []) by (intros Ee; rewrite Ee in Lw; cbn in Lw; lia).
    assert (Ew' : lastn p (h ++ [x]) = tl w ++ [x]) by (unfold w; apply lastn_snoc; assumption).
    split; [rewrite Hc', Hcnt, app_length; cbn [length]; lia|].
    rewrite Hrot, lastn_padded_full in Em' by exact Hlen. fold w in Em'.
    set (old := hd 0%float w) in *.
    assert (Hold : okin M old) by (unfold old; destruct w as [|a w0]; [congruence|]; cbn; now inversion Fw).
    rewrite Ew', map_app, <- tl_map in *. cbn [map] in *.
    assert (Hwr : map FR w <> []) by (destruct w; [congruence|discriminate]).
    rewrite (mean_slide _ _ Hwr) in *. rewrite map_length, Lw in *.
    assert (Ehd : hd 0 (map FR w) = FR old) by (unfold old; rewrite <- FR_zero at 1; apply hd_map).
    rewrite Ehd in *.
    assert (Ec : IZR (Z.of_N (sd_period s)) = INR p) by (unfold p; rewrite <- (N2Nat.id (sd_period s)) at 1; apply INR_N).
    rewrite <- Ec in *. rewrite Em'.
    apply (mean_update (sd_m s) x old (sd_period s) (mean (map FR w)) (FR old) E M HM1 HM990 HE Fm Fx (proj1 Hold)); try assumption.
    + lia.
    + apply Hold.
    + right. reflexivity.
    + rewrite <- Em'. exact Fm'.
Qed.

From TA Require Import Proofs.XSma Proofs.Wiring Proofs.FloatAtr.
Open Scope R_scope.

Lemma fsdm_run M : 1 <= M -> M <= bpow radix2 400 ->
  forall xs (s : @Sd float) h, (sd_period s < 9007199254740992)%N ->
  fsd_inv M s (length h) -> fsdm_inv s h (14 * INR (length h) * u * M) ->
  Forall (okin M) h -> Forall (okin M) xs -> INR (length h + length xs) + 2 <= bpow radix2 40 ->
  Forall2 (fun md hh => finF (fst md) /\
                        Rabs (FR (fst md) - mean (map FR (lastn (N.to_nat (sd_period s)) hh))) <= 14 * INR (length hh) * u * M)
          (sd_mean_outs O s xs) (prefixes_from h xs).
Proof.
  intros HM1 HM2. pose proof u_pos as Hu0.
  induction xs as [|x xs IH]; intros s h Hp Hinv Hminv Hh Hxs Ht; [constructor|].
  pose proof (Forall_inv Hxs) as Hx. pose proof (Forall_inv_tail Hxs) as Hxs'.
  set (t := length h) in *.
  assert (Ht1 : INR t + 2 <= bpow radix2 40).
  { eapply Rle_trans; [|exact Ht]. apply Rplus_le_compat_r. apply le_INR. lia. }
  destruct (fsd_step M s t x HM1 HM2 Ht1 Hp Hinv Hx) as (s' & o & E & Hinv' & Hp' & Fo & Ho).
  assert (HE : 0 <= 14 * INR t * u * M <= M).
  { pose proof (pos_INR t) as Ht0. split; [apply Rmult_le_pos; [apply Rmult_le_pos; [lra|lra]|lra]|].
    assert (H40 : bpow radix2 40 * u <= / 1000) by (unfold u; cbn; lra).
    assert (INR t * u <= bpow radix2 40 * u) by (apply Rmult_le_compat_r; lra).
    replace (14 * INR t * u * M) with (14 * (INR t * u) * M) by ring.
    rewrite <- (Rmult_1_l M) at 2. apply Rmult_le_compat_r; lra. }
  pose proof (fsdm_step M s h x _ s' o HM1 HM2 Hp Hinv Hminv HE Hh Hx E Hinv') as Hminv'.
  assert (Lh : length (h ++ [x]) = S t) by (rewrite app_length; cbn; unfold t; lia).
  assert (EE : 14 * INR t * u * M + 14 * u * M = 14 * INR (length (h ++ [x])) * u * M) by (rewrite Lh, S_INR; ring).
  rewrite EE in Hminv'.
  cbn [sd_mean_outs prefixes_from]. rewrite E. constructor.
  - cbn [fst]. destruct Hinv' as (_ & _ & Fm' & _). split; [exact Fm'|]. destruct Hminv' as (_ & _ & Hm'). rewrite Hp' in Hm'. exact Hm'.
  - rewrite <- Hp'. apply IH; try assumption.
    + rewrite Hp'. exact Hp.
    + rewrite Lh. exact Hinv'.
    + apply Forall_app. split; [exact Hh|constructor; [exact Hx|constructor]].
    + rewrite Lh. replace (S t + length xs)%nat with (t + length (x :: xs))%nat by (cbn [length]; lia). exact Ht.
Qed.

(* the running mean of StandardDeviation (= BollingerBands.average) against the exact mean of the window *)
Theorem sd_mean_float_error : forall p s xs M, sd_new O p = Ok s -> (p < 9007199254740992)%N ->
  1 <= M -> M <= bpow radix2 400 -> Forall (okin M) xs -> INR (length xs) + 2 <= bpow radix2 40 ->
  Forall2 (fun md hh => finF (fst md) /\ Rabs (FR (fst md) - mean (map FR (lastn (N.to_nat p) hh))) <= 14 * INR (length hh) * u * M)
          (sd_mean_outs O s xs) (prefixes_from [] xs).
Proof.
  intros p s xs M H Hp HM1 HM2 Hxs Ht. pose proof (sd_new_inv O p s H) as (A & B & W0 & Pe).
  rewrite <- Pe. apply (fsdm_run M HM1 HM2 xs s []); try assumption.
  - rewrite Pe. exact Hp.
  - apply (fsd_inv_new M p s HM1 H).
  - rewrite sd_new_ok in H by assumption. injection H as <-. unfold fsdm_inv. cbn [sd_period sd_index sd_count sd_m sd_deque length].
    split; [rewrite rot_0, lastn_padded_nil; reflexivity|]. split; [reflexivity|].
    change (zero O) with 0%float. rewrite FR_zero.
    replace (lastn (N.to_nat p) (@nil float)) with (@nil float) by (unfold lastn; destruct (N.to_nat p); reflexivity).
    cbn [map]. rewrite mean_nil, Rminus_0_r, Rabs_R0. cbn [INR]. lra.
  - constructor.
Qed.

Lemma Forall2_combine {A B C} (P : A -> C -> Prop) (Q : B -> C -> Prop) : forall l1 l2 L,
  Forall2 P l1 L -> Forall2 Q l2 L -> Forall2 (fun ab c => P (fst ab) c /\ Q (snd ab) c) (combine l1 l2) L.
Proof.
  intros l1 l2 L H1. revert l2. induction H1 as [|a c l1 L Ha _ IH]; intros l2 H2; inversion H2; subst; cbn [combine]; constructor.
  - split; assumption.
  - apply IH. assumption.
Qed.

Lemma Forall2_imp {A C} (P Q : A -> C -> Prop) : (forall a c, P a c -> Q a c) -> forall l L, Forall2 P l L -> Forall2 Q l L.
Proof. intros H l L H2. induction H2; constructor; auto. Qed.

Lemma Forall2_map_l {A B C} (f : A -> B) (P : B -> C -> Prop) : forall l L, Forall2 (fun a c => P (f a) c) l L -> Forall2 P (map f l) L.
Proof. induction 1; cbn [map]; constructor; assumption. Qed.

(* BollingerBands.average (first output) against SimpleMovingAverage of the same period on the same inputs, both on binary64 *)
Theorem bb_average_vs_sma_float : forall p mu b sm xs M, bb_new O p mu = Ok b -> sma_new O p = Ok sm -> (p < 1099511627776)%N ->
  1 <= M -> M <= bpow radix2 400 -> Forall (okin M) xs -> INR (length xs) + 2 <= bpow radix2 40 ->
  Forall2 (fun ab hh => let avg := hd 0%float (fst ab) in
             finF avg /\ finF (snd ab) /\ Rabs (FR avg - FR (snd ab)) <= (28 * INR (length hh) + 2) * u * M)
          (combine (bb_outs O b xs) (sma_outs' O sm xs)) (prefixes_from [] xs).
Proof.
  intros p mu b sm xs M Hb Hs Hp HM1 HM2 Hxs Ht. pose proof u_pos as Hu0. pose proof eta_pos as He0. pose proof eta_le_u as Heu.
  unfold bb_new in Hb. destruct (sd_new O p) as [sd| |] eqn:Esd; cbn [bind] in Hb; try discriminate. injection Hb as <-.
  rewrite bb_wiring.
  pose proof (sd_mean_float_error p sd xs M Esd ltac:(lia) HM1 HM2 Hxs Ht) as H1.
  assert (Hpn : INR (N.to_nat p) <= bpow radix2 40).
  { replace (bpow radix2 40) with (INR (N.to_nat 1099511627776)) by (rewrite INR_IZR_INZ, N_nat_Z; cbn; lra). apply le_INR. lia. }
  assert (H40 : bpow radix2 40 = 1099511627776) by (cbn; lra).
  assert (Hbig : 3 * ((INR (N.to_nat p) + 2) * M + 1) <= BIG).
  { unfold BIG. apply Rle_trans with (bpow radix2 44 * bpow radix2 400); [|rewrite <- bpow_plus; apply bpow_le; lia].
    assert (E44 : bpow radix2 44 = 16 * bpow radix2 40) by (change 44%Z with (4 + 40)%Z; rewrite bpow_plus; cbn; lra).
    assert ((INR (N.to_nat p) + 2) * M <= (bpow radix2 40 + 2) * M) by (apply Rmult_le_compat_r; lra).
    assert (bpow radix2 44 * M <= bpow radix2 44 * bpow radix2 400) by (apply Rmult_le_compat_l; [apply bpow_ge_0|exact HM2]).
    assert (0 <= bpow radix2 40 * M) by (apply Rmult_le_pos; [apply bpow_ge_0|lra]).
    rewrite E44 in *. rewrite H40 in *. lra. }
  assert (Htu : INR (length xs) * u <= / 16).
  { assert (INR (length xs) <= bpow radix2 40) by lra. assert (bpow radix2 40 * u <= / 16) by (unfold u; cbn; lra).
    assert (INR (length xs) * u <= bpow radix2 40 * u) by (apply Rmult_le_compat_r; lra). lra. }
  pose proof (sma_float_error p sm xs M Hs ltac:(lia) ltac:(lra) Hxs Hbig Htu) as H2.
  set (f := fun '(mean, dev) => [mean; add O mean (mul O dev mu); sub O mean (mul O dev mu)]).
  set (P1 := fun (o : list float) (hh : list float) => finF (hd 0%float o) /\
               Rabs (FR (hd 0%float o) - mean (map FR (lastn (N.to_nat p) hh))) <= 14 * INR (length hh) * u * M).
  assert (H1' : Forall2 P1 (map f (sd_mean_outs O sd xs)) (prefixes_from [] xs)).
  { apply Forall2_map_l. eapply Forall2_imp; [|exact H1]. intros [mn dv] hh Hq. unfold P1, f. cbn [hd fst] in *. exact Hq. }
  pose proof (Forall2_combine _ _ _ _ _ H1' H2) as H3.
  eapply Forall2_imp; [|exact H3]. cbv beta. unfold P1. intros ab hh [(F1 & E1) (F2 & E2)]. cbv zeta.
  split; [exact F1|]. split; [exact F2|].
  set (mu_r := mean (map FR (lastn (N.to_nat p) hh))) in *.
  replace (FR (hd 0%float (fst ab)) - FR (snd ab)) with ((FR (hd 0%float (fst ab)) - mu_r) - (FR (snd ab) - mu_r)) by ring.
  eapply Rle_trans; [apply Rabs_triang|]. rewrite Rabs_Ropp.
  unfold out_bound in E2. set (T := INR (length hh)) in *. assert (HT : 0 <= T) by apply pos_INR.
  assert (HeM : eta <= u * M) by (apply Rle_trans with (u * 1); [lra|apply Rmult_le_compat_l; lra]).
  assert ((5 * T + 1) * eta <= (5 * T + 1) * (u * M)) by (apply Rmult_le_compat_l; lra).
  replace ((28 * T + 2) * u * M) with (14 * T * u * M + ((9 * T + 1) * u * M + (5 * T + 1) * (u * M))) by ring. lra.
Qed.

Lemma prefixes_from_len {A} : forall (xs h : list A), Forall (fun hh => (1 <= length hh)%nat) (prefixes_from h xs).
Proof. induction xs as [|x xs IH]; intros h; cbn [prefixes_from]; [constructor|]. constructor; [rewrite app_length; cbn; lia|apply IH]. Qed.

(* ... which is inside the tolerance tau(t) * M of properties C15 / C01 / C13 *)
Theorem bb_average_vs_sma_within_tau : forall p mu b sm xs M, bb_new O p mu = Ok b -> sma_new O p = Ok sm -> (p < 1099511627776)%N ->
  1 <= M -> M <= bpow radix2 400 -> Forall (okin M) xs -> INR (length xs) + 2 <= bpow radix2 40 ->
  Forall2 (fun ab hh => let avg := hd 0%float (fst ab) in let t := INR (length hh) in
             finF avg /\ finF (snd ab) /\ Rabs (FR avg - FR (snd ab)) <= (1 / 10 ^ 12 + 1 / 10 ^ 15 * (t * R_sqrt.sqrt t)) * M)
          (combine (bb_outs O b xs) (sma_outs' O sm xs)) (prefixes_from [] xs).
Proof.
  intros p mu b sm xs M Hb Hs Hp HM1 HM2 Hxs Ht. pose proof u_pos as Hu0.
  pose proof (bb_average_vs_sma_float p mu b sm xs M Hb Hs Hp HM1 HM2 Hxs Ht) as H.
  pose proof (prefixes_from_len xs []) as Hlen.
  revert Hlen. induction H as [|ab hh l L (F1 & F2 & E) _ IH]; intros Hlen; constructor.
  - cbv zeta in *. split; [exact F1|]. split; [exact F2|]. eapply Rle_trans; [exact E|].
    pose proof (Forall_inv Hlen) as H1. assert (HT : 1 <= INR (length hh)) by (change 1 with (INR 1); apply le_INR; exact H1).
    eapply Rle_trans; [|apply atr_bound_tau; [lra|exact HT]].
    set (T := INR (length hh)) in *. assert (0 <= u * M) by (apply Rmult_le_pos; lra).
    replace ((28 * T + 2) * u * M) with ((28 * T + 2) * (u * M)) by ring. replace ((96 * T + 3) * u * M) with ((96 * T + 3) * (u * M)) by ring.
    apply Rmult_le_compat_r; lra.
  - apply IH. exact (Forall_inv_tail Hlen).
Qed.
