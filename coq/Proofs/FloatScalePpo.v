(* C14 on binary64, whole streams: PercentagePriceOscillator is UNCHANGED (as values: FR o' = FR o, written scaled 0) when every price is
   multiplied by 2^k: the two price EMAs scale (FloatScaleEma), their difference scales, the ratio to the slow EMA times 100 is the same
   real number in both runs (ratio100_invariant), and the signal EMA and the histogram then work on equal values. *)
From Coq Require Import Reals Lra Lia ZArith List Floats.
From Flocq Require Import Core.
From TA Require Import Base Model FloatInst Proofs.Wiring Proofs.FloatErr Proofs.FloatScale Proofs.FloatScaleWma Proofs.FloatScaleEma.
Import ListNotations.
Local Notation O := FOps.
Local Notation float := PrimFloat.float.
Open Scope R_scope.

Definition rel_ppo (k : Z) (s s' : @Ppo float) : Prop :=
  rel_ema k (ppo_fast s) (ppo_fast s') /\ rel_ema k (ppo_slow s) (ppo_slow s') /\ rel_ema 0 (ppo_signal s) (ppo_signal s').

Definition ppo_step_ok (k : Z) (s : @Ppo float) (x : float) : Prop :=
  let fv := snd (ema_next O (ppo_fast s) x) in let sv := snd (ema_next O (ppo_slow s) x) in
  let line := ((fv - sv) / sv * 100)%float in let sg := snd (ema_next O (ppo_signal s) line) in
  ema_step_ok k (ppo_fast s) x /\ ema_step_ok k (ppo_slow s) x /\ okr k (FR fv - FR sv) /\
  FR sv <> 0 /\ Rabs (FR (fv - sv)%float / FR sv) <= BIG / 256 /\
  ema_step_ok 0 (ppo_signal s) line /\ okr 0 (FR line - FR sg).

Lemma scaled0 a a' : finF a -> finF a' -> FR a' = FR a -> scaled 0 a a'.
Proof. intros Fa Fa' E. split; [exact Fa|]. split; [exact Fa'|]. rewrite E. cbn. ring. Qed.

Lemma ppo_step_pow2 k s s' x x' : rel_ppo k s s' -> scaled k x x' -> ppo_step_ok k s x ->
  rel_ppo k (fst (ppo_next O s x)) (fst (ppo_next O s' x')) /\ Forall2 (scaled 0) (snd (ppo_next O s x)) (snd (ppo_next O s' x')).
Proof.
  intros (Rf & Rs & Rg) Sx (Hf & Hs & (A1 & A2 & A3) & Nz & Hq & Hg & (B1 & B2 & B3)). unfold ppo_next.
  destruct (ema_step_pow2 k _ _ x x' Rf Sx Hf) as [Rf' Sf]. destruct (ema_step_pow2 k _ _ x x' Rs Sx Hs) as [Rs' Ss].
  destruct (ema_next O (ppo_fast s) x) as [f fv]. destruct (ema_next O (ppo_fast s') x') as [f' fv'].
  destruct (ema_next O (ppo_slow s) x) as [sl sv]. destruct (ema_next O (ppo_slow s') x') as [sl' sv'].
  cbn [fst snd sub div mul c100 O] in *.
  pose proof (fsub_scale k _ _ _ _ Sf Ss A1 A2 A3) as Sd.
  destruct (ratio100_invariant k _ _ _ _ Sd Ss Nz Hq) as (F1 & F2 & E).
  pose proof (scaled0 _ _ F1 F2 E) as Sline.
  destruct (ema_step_pow2 0 _ _ _ _ Rg Sline Hg) as [Rg' Ssg].
  destruct (ema_next O (ppo_signal s) ((fv - sv) / sv * 100)%float) as [g sg].
  destruct (ema_next O (ppo_signal s') ((fv' - sv') / sv' * 100)%float) as [g' sg'].
  cbn [fst snd] in *.
  pose proof (fsub_scale 0 _ _ _ _ Sline Ssg B1 B2 B3) as Sh.
  split; [repeat split; cbn [ppo_fast ppo_slow ppo_signal]; first [apply Rf'|apply Rs'|apply Rg']|].
  constructor; [exact Sline|]. constructor; [exact Ssg|]. constructor; [exact Sh|constructor].
Qed.

Fixpoint ppo_run_ok (k : Z) (s : @Ppo float) (xs : list float) : Prop :=
  match xs with [] => True | x :: xs => ppo_step_ok k s x /\ ppo_run_ok k (fst (ppo_next O s x)) xs end.

Theorem ppo_stream_pow2 k : forall xs xs' s s', rel_ppo k s s' -> Forall2 (scaled k) xs xs' -> ppo_run_ok k s xs ->
  Forall2 (Forall2 (scaled 0)) (ppo_outs O s xs) (ppo_outs O s' xs').
Proof.
  induction xs as [|x xs IH]; intros xs' s s' Hr Hx Hok; inversion Hx as [|? x' ? xs2 Sx Hx']; subst; cbn [ppo_outs]; [constructor|].
  destruct Hok as [Hs Hn]. destruct (ppo_step_pow2 k s s' x x' Hr Sx Hs) as [Hr' So].
  destruct (ppo_next O s x) as [s1 o]. destruct (ppo_next O s' x') as [s1' o']. cbn [fst snd] in *.
  constructor; [exact So|]. apply IH; assumption.
Qed.

Theorem ppo_pow2_invariant k pf ps pg s xs xs' : ppo_new O pf ps pg = Ok s -> Forall2 (scaled k) xs xs' -> ppo_run_ok k s xs ->
  Forall2 (Forall2 (scaled 0)) (ppo_outs O s xs) (ppo_outs O s xs').
Proof.
  intros H Hx Hok. apply (ppo_stream_pow2 k xs xs' s s); [|exact Hx|exact Hok].
  unfold ppo_new in H.
  destruct (ema_new O pf) as [f| |] eqn:Ef; cbn [bind] in H; try discriminate.
  destruct (ema_new O ps) as [sl| |] eqn:Es; cbn [bind] in H; try discriminate.
  destruct (ema_new O pg) as [g| |] eqn:Eg; cbn [bind] in H; try discriminate. injection H as <-.
  split; [apply (rel_ema_refl_new k pf f Ef)|]. split; [apply (rel_ema_refl_new k ps sl Es)|apply (rel_ema_refl_new 0 pg g Eg)].
Qed.
