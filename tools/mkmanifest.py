#!/usr/bin/env python3
# regenerates MANIFEST.json from the table below (run from /verif)
import json, os
NOTE = ("Trusted: Coq 8.16.1 kernel and vm_compute; axioms as listed per theorem in the evidence (none for G-theorems; Reals axioms "
        "for X-theorems; primitive-float specification axioms for F-theorems); the hand-written model coq/Model.v, coq/Generic.v of "
        "/repo/src, tied to the code on every run by bit-exact correspondence (outputs, errors, panics, bincode state images) on the "
        "generated cases; the Rust harness and the Python driver. A broken correspondence or proof is reported as a violation; a concrete "
        "failing input is searched on the implementation first.")
T = {
 "C01": ("Theorems: Minimum/Maximum return an element of exactly the last min(t,n) inputs with no smaller/greater element in that window, for every period, every cursor position and every strict total order with top (C01_min_least, C01_max_greatest), instantiated bit-exactly for binary64 without NaN/-0.0 (C01_float_order via Flocq, C01_min_least_binary64, C01_max_greatest_binary64); over the exact carrier (extended reals) SMA, WMA, SD, MAD, BB equal mean / weighted mean / population variance / mean absolute deviation / mean +- m*sd of the last min(t,n) inputs for every stream; the exact-rational oracle of the tolerance check is proved to be the image of that exact real run (C01_t2_oracle, by parametricity of the interpreter). The rounding part (tau) is PROVED for SimpleMovingAverage on binary64 (C01_sma_binary64_within_tau: forward error analysis through Flocq, every period < 2^53, up to 2^49 inputs, no-overflow hypothesis explicit) and validated by T2 on generated streams for the others: partial; refuted for WMA (K7) and at overflow scale (K8).",
         "Rocq proofs (ring-buffer rotation invariant, induction over streams; exact-arithmetic refinement; Flocq order instance; Paramcoq abstraction theorem) + bit-exact correspondence + exact-rational tolerance check"),
 "C02": ("Theorems for every number type (bit-exact for binary64): EMA returns its first input and then k*x+(1-k)*prev with k=2/(n+1); TrueRange scalar and bar definitions; ATR = EMA(TR), MACD, KC, CE equal the hand wiring of standalone streams for every period combination. Over exact reals the model's EMA, ATR, MACD and KeltnerChannel streams are the real recursions (C02_ema_exact, closed form C02_ema_closed_form, C02_atr_exact, C02_macd_exact, C02_kc_exact). Agreement of the float recursion with exact evaluation within tau(t): PROVED for ExponentialMovingAverage on binary64 (C02_ema_binary64_within_tau: forward error analysis through Flocq including the rounding of alpha; periods < 2^53, up to 2^45 inputs, explicit magnitude bounds) and for AverageTrueRange on scalars (C02_atr_binary64_within_tau, by composition), and for MACD line, signal and histogram on streams of any length (C02_macd_binary64_error: three saturating EMA bounds, two rounded subtractions, 1-Lipschitz signal; periods < 2^45); for KC/CE and the bar paths validated by T2 against the exact-rational instance, proved to be the image of the exact real run (partial).",
         "Rocq proofs (stream induction, any carrier) + bit-exact correspondence + exact-rational tolerance check"),
 "C10": ("Theorems for every number type: Next<&T> of the 11 close-only indicators equals Next<f64> on close (Minimum: low, Maximum: high) as an equation of state and output; bars agreeing on the documented read-set are indistinguishable; open is never read; DataItem = any other implementor. One-price bars: FastStochastic / SlowStochastic take exactly the scalar step for every carrier with symmetric == (proved for binary64 from the float axioms, so bit-exact for every float incl. NaN); TrueRange and ATR also bit-exactly on binary64 for every finite price (C10_tr_one_price_binary64, C10_atr_one_price_binary64); KeltnerChannel over exact reals ((x+x+x)/3 = x), on binary64 checked on the implementation (relational) - partial on that component.",
         "Rocq proofs (definitional equalities over 22 kinds; float == symmetry; exact-carrier one-price steps) + bit-exact correspondence + relational checks on the implementation"),
 "C13": ("Theorems: the exact-arithmetic invariants (running state = from-scratch statistic of the current window) are preserved by every step with no bound on the stream length; variance never negative; Minimum exact forever; the exact-rational oracle is the image of the exact real run (C13_t2_oracle). Float drift within tau(t): proved for SimpleMovingAverage (C13_sma_binary64_no_drift, up to 2^49 inputs); for the others validated on streams of 2*10^4 (quick) / 2*10^6 (thorough) inputs generated identically on both sides, against a fresh exact instance on the current window (partial); refuted for WMA (K7).",
         "Rocq proofs (unbounded invariants) + twin-generator long-stream correspondence (checkpoints + hash of all outputs) + exact-rational window recomputation"),
 "C15": ("Theorems for every number type (bit-exact): SlowStochastic, ATR, MACD, PPO, KC (scalar and bar), CE, BB (half-width = m*SD, middle = SD's mean), "
         "CCI equal the hand wiring of the standalone streams; over exact reals BB.average = SMA (bb_average_is_sma); on binary64 |BB.average - SMA| <= (28t+2)*2^-53*M <= tau(t)*M is PROVED (C15_bb_average_binary64_vs_sma, C15_bb_average_binary64_within_tau: forward error analysis of the Welford running mean, C15_sd_mean_binary64_error, plus the SMA error theorem; periods < 2^40, up to 2^40 inputs, magnitude up to 2^400).",
         "Rocq proofs (stream induction, any carrier) + bit-exact correspondence + composite-vs-public-parts comparison on the implementation"),
 "C17": ("Theorems: over exact reals the last output of SMA, WMA, SD, MAD, BB, FastStochastic, CCI is a function of the last n inputs and that of RateOfChange, EfficiencyRatio, MoneyFlowIndex of the last n+1 (two histories sharing that suffix give equal outputs); Minimum and Maximum exactly, for any strict total order, instantiated bit-exactly for binary64 without NaN/-0.0. Float tolerances: implementation-level suffix-vs-full comparison (partial); WMA drift K7.",
         "Rocq proofs (corollaries of the exact refinement theorems; order theorems) + bit-exact correspondence + suffix-vs-full comparison on the implementation"),
 "C03": ("Theorems for every number type (bit-exact): RSI = 100U/(U+D) from two EMAs of gains/losses seeded 0.1; FastStochastic = formula on Minimum/Maximum (scalar and bar paths), SlowStochastic = EMA(Fast), PPO, CCI, OBV as documented. Over exact reals: FastStochastic is the formula on the least/greatest of exactly the last min(t,n) prices; RateOfChange, EfficiencyRatio, MoneyFlowIndex and CCI refine their documented ratios over the last n / n+1 inputs, with the IEEE value on a zero denominator (C03_roc, C03_er, C03_mfi, C03_cci_exact and the value lemmas); RateOfChange also for every number type (C03_roc_any_carrier) and with a proved relative error of 4*2^-53 on binary64 (C03_roc_binary64_error, Flocq). Other rounding components: T2 against the exact-rational instance with exact condition numbers (partial).",
         "Rocq proofs (stream induction; order-theoretic window characterisation; ring-buffer refinements) + bit-exact correspondence + exact-rational check with condition numbers"),
 "C07": ("Theorems over exact reals (slack 0): FastStochastic in [0,100] on every finite stream; RSI in [0,100] whenever its denominator is non-zero (NaN exactly otherwise); SlowStochastic in [0,100]; EfficiencyRatio in [0,1] whenever the path length is non-zero (triangle inequality along the path); MFI in [0,100] whenever the window carries flow. On binary64 FastStochastic is proved to stay in [0,100] with no slack at all (C07_fast_binary64_range: monotone rounding, Flocq). Rounding slack of the others: range predicate on the implementation (partial).",
         "Rocq proofs (convexity of the EMA recursion, order theorems, triangle inequality) + bit-exact correspondence + range predicate on implementation outputs"),
 "C08": ("Theorems (exact arithmetic): on a flat window MAD = 0, SD = 0, Bollinger bands collapse, FastStochastic returns the literal 50, TrueRange 0, RateOfChange 0, CCI 0. Refuted for EfficiencyRatio, RSI, MFI, CCI by vm_compute witnesses on the float model (C08_K3..K6) and, for every flat / zero-flow window in exact arithmetic, by C08_K3_er_flat_exact and C08_K5_mfi_zero_flow_exact (the result is 0/0 = NaN); replayed on the implementation and listed as known findings; every other degenerate-window failure is a violation.",
         "Rocq proofs + vm_compute refutation witnesses + flat-stretch enumeration on the implementation with known-finding classification"),
 "C09": ("Theorems: MACD/PPO histogram = line - signal for every number type (no slack); Minimum <= Maximum for any order; over exact reals SD, MAD >= 0 and never NaN, BB lower <= average <= upper for multiplier >= 0, SMA/WMA within the range of their window, EMA within the range of its history, TrueRange and ATR >= 0 for low <= high, KeltnerChannel lower <= average <= upper, ChandelierExit long <= window maximum and short >= window minimum. On binary64 StandardDeviation and MeanAbsoluteDeviation are proved finite and >= 0 (never NaN) for inputs of magnitude up to 2^400 (C09_sd_binary64_never_nan, C09_mad_binary64_never_nan, Flocq) and refuted at 1.7e308 (K8); BollingerBands on binary64 are proved finite with lower <= average <= upper exactly, no slack (C09_bb_binary64_ordered: multiplier in [0, 2^400], rounding is monotone and fixes the average); binary64 AverageTrueRange (scalars) is finite and >= 0 and KeltnerChannel bands are finite and ordered exactly, for streams of any length (C09_atr_binary64_nonneg, C09_kc_binary64_ordered). Float slack of the other relations: predicate on the implementation (partial).",
         "Rocq proofs (convexity, sums of squares) + bit-exact correspondence + ordering predicates on implementation outputs"),
 "C14": ("Theorems over exact reals, for every stream: SMA, WMA, SD, MAD, EMA, MACD, TrueRange, ATR, KeltnerChannel and Bollinger levels scale with c; SMA, EMA, WMA, KC and BB levels shift by d while SD, MAD, MACD, TrueRange, ATR are unchanged; Minimum and Maximum commute with every strictly increasing map; FastStochastic is unchanged by x -> c*x+d (c>0); SlowStochastic is unchanged by the same maps; PPO, ROC, EfficiencyRatio, CCI, MFI, OBV are unchanged by c>0 including their division-by-zero cases; for every number type whose negation reverses the comparison Maximum(x) = -Minimum(-x) exactly. ChandelierExit and the float tolerances: pairwise comparison of implementation runs (partial).",
         "Rocq proofs (homogeneity of the exact specifications; uniqueness of extremes under monotone maps; simulation for Max/Min) + bit-exact correspondence + scaled/shifted run comparison on the implementation"),
 "C04": ("Theorems for every number type: reset of any reachable state equals the constructor's state as a record for the 17 indicators without Minimum/Maximum inside (C04_reset_is_new), keeps parameters, is idempotent and a no-op on fresh instances; Minimum/Maximum reset is observationally equal to new on every continuation for every strict total order with top (C04_min_reset_equiv, C04_max_reset_equiv), instantiated for binary64 without NaN/-0.0 and lifted to FastStochastic (both paths), SlowStochastic and ChandelierExit, so all 22 indicators are covered. Correspondence: histories with NaN/inf/extremes and repeated resets, implementation after reset vs fresh implementation vs model.",
         "Rocq proofs (invariant + record equality; order-theoretic bisimulation for Min/Max) + bit-exact correspondence"),
 "C05": ("Theorems about the store model of instances: frame (ops on other instances never change instance i), clone starts from the source's "
         "state, interleavings with other instances are invisible, equal state + equal history gives equal observations. Tied to the code by "
         "running all merges / random interleavings on the crate, also on 16 threads, and by a purity scan.",
         "Rocq proofs (store non-interference, induction over interleavings) + bit-exact correspondence + 16-thread execution"),
 "C06": ("Theorems for every number type: de(ser s ++ rest) = (s, rest) for every state of every indicator at the bincode item level, hence "
         "serialize-deserialize is the identity and transparent at any point of any operation sequence. Byte layout tied to the code by comparing "
         "bincode bytes with the model's image after every case.",
         "Rocq proofs (parser/printer round-trip) + byte-exact state-image correspondence"),
 "C11": ("Theorems: new returns Err(InvalidParameter) iff some period is 0 and Ok otherwise (any period for allocation-free indicators, up to "
         "isize::MAX/8 for windowed ones); stored parameters equal the arguments; period()/multiplier()/Display arguments are the stored "
         "parameters and never change; Display names and Default constants are pinned literally.",
         "Rocq proofs (case analysis over 22 constructors, invariants) + exhaustive small-period correspondence"),
 "C12": ("Theorems for an arbitrary number type with arbitrary operations (so NaN/inf/extremes/inconsistent bars are covered): from any "
         "well-formed state next / next_bar / reset return normally in the checked-arithmetic model and preserve well-formedness; no operation "
         "sequence of any length on any number of instances yields a panic (C12_run_no_panic).",
         "Rocq proofs (well-formedness invariant; checked usize/index/slice model) + correspondence with catch_unwind, debug build"),
 "C16": ("Theorems over an arbitrary number type state the builder's complete behaviour for every sequence of setter calls; NaN rejection "
         "proved for IEEE binary64 from Coq's float axioms.",
         "Rocq proofs (induction over setter calls; float axioms) + bit-exact correspondence on the value lattice"),
 "C18": ("Theorems: the bincode length of every well-formed state is a closed formula of kind and period (+8 once a TrueRange has seen a bar), "
         "bounded by 256+64*sum(periods); well-formedness (buffer length = period) is invariant along every run. Heap: counting allocator "
         "observation (not modelled) - partial on that component.",
         "Rocq proofs (size formula, invariant) + byte-length correspondence + counting-allocator measurement"),
}
REF = {k: "DESIGN.md section 3 " + k for k in T}
checks = []
for pid in sorted(T):
    if not os.path.exists("lib/props/%s.py" % pid) or not os.path.exists("coq/Properties/%s.v" % pid):
        continue
    text, tech = T[pid]
    checks.append({"property_id": pid, "quick_cmd": "./check %s quick" % pid, "thorough_cmd": "./check %s thorough" % pid,
                   "evidence_file": "/verif/evidence/%s.json" % pid, "replay_cmd_template": "./check --replay {path}",
                   "engine": "coq-model+correspondence",
                   "level_claimed": {"category": "proof", "text": text, "design_ref": REF[pid]},
                   "level_note": NOTE, "technique": tech})
props = [json.loads(l)["id"] for l in open("properties.jsonl")]
claimed = {c["property_id"] for c in checks}
na = []
for p in props:
    if p in claimed:
        continue
    if p == "C19":
        na.append({"property_id": p, "reason": "trait surface / auto-trait facts are judgements of rustc's type checker about client programs; no executable Gallina model can express them (DESIGN.md section 3, C19)"})
    else:
        na.append({"property_id": p, "reason": "check under construction in this session (model and bit-exact correspondence exist; theorems not yet registered)"})
m = {"version": 1,
     "setup_cmd": "cd /verif/coq && coq_makefile -f _CoqProject -o Makefile && timeout 3000 make -j16 && cd /verif/harness && CARGO_NET_OFFLINE=true cargo build --offline",
     "hooks": {"guard": "ta_verif", "enable": "none needed: full state is observable through the crate's derived Serialize/Debug impls; the guard name is reserved, no source commits",
               "baseline_off_cmd": "cd /repo && cargo test --workspace --no-fail-fast --offline", "source_commits": [], "add_only": True},
     "engines": [{"name": "coq-model+correspondence", "path": "/verif/coq, /verif/harness, /verif/lib", "serves_properties": sorted(claimed),
                  "kind_free_text": "Coq 8.16 development (hand-written model generic in the number type, theorems in coq/Properties) + Rust harness on /repo + vm_compute evaluation of the model on the same cases"}],
     "checks": checks, "not_applicable": na,
     "notes": "./check <id> <quick|thorough>; honours VERIF_SEED / VERIF_TIER. Known findings: /verif/known_findings.json. Fix commits in /repo: f340e5f (CCI), 624bd66 (EMA)."}
json.dump(m, open("MANIFEST.json", "w"), indent=1)
print("claimed:", sorted(claimed))
