(* Par/Hom.v — the exact rational instance (the T2 oracle, executable) is a homomorphic image-preimage
   of the exact real instance the X-theorems are stated over: q2x : XQ -> XR commutes with every
   operation of [Ops] except sqrt, which the rational instance replaces by the identity
   ("variance model"). *)
From Coq Require Import Reals Lra QArith Qabs Qreals NArith List.
From Param Require Import Param.
From TA Require Import Base Model Generic XQ XR.
From TA.Par Require Import Rel.

Definition q2x (a : XQ) : XR :=
  match a with QFin q => Fin (Q2R q) | QPInf => PInf | QNInf => NInf | QNaN => XNaN end.
Definition QR (a : XQ) (b : XR) : Type := q2x a = b.

(* the real instance with sqrt := identity *)
Definition XRvOps : Ops XR := {|
  zero := zero XROps; one := one XROps; two := two XROps; three := three XROps;
  c100 := c100 XROps; c50 := c50 XROps; c0_1 := c0_1 XROps; c0_015 := c0_015 XROps;
  inf := inf XROps; ninf := ninf XROps;
  add := add XROps; sub := sub XROps; mul := mul XROps; div := div XROps;
  sqrt := fun x => x; abs := abs XROps; neg := neg XROps;
  ltb := ltb XROps; leb := leb XROps; eqb := eqb XROps;
  ofN := ofN XROps; is_sign_positive := is_sign_positive XROps |}.

Lemma Q2R_red q : Q2R (Qred q) = Q2R q. Proof. apply Qeq_eqR, Qred_correct. Qed.

Lemma sgn_rsgn q : rsgn (Q2R q) = sgn q.
Proof.
  unfold rsgn, sgn. destruct q as [n d]. unfold Q2R. cbn [Qnum Qden].
  assert (Hd : (0 < IZR (Zpos d))%R) by (apply IZR_lt; reflexivity).
  assert (Hi : (0 < / IZR (Zpos d))%R) by (apply Rinv_0_lt_compat; exact Hd).
  destruct (Z.compare_spec n 0) as [H|H|H].
  - subst. rewrite Rmult_0_l. destruct (Rlt_dec 0 0); [lra|]. destruct (Rlt_dec 0 0); [lra|reflexivity].
  - apply IZR_lt in H. assert (IZR n * / IZR (Zpos d) < 0)%R by nra.
    destruct (Rlt_dec 0 _); [lra|]. destruct (Rlt_dec _ 0); [reflexivity|lra].
  - apply IZR_lt in H. assert (0 < IZR n * / IZR (Zpos d))%R by nra.
    destruct (Rlt_dec 0 _); [reflexivity|lra].
Qed.

Lemma sgn_eq_zero q : sgn q = Eq -> q == 0.
Proof. unfold sgn. destruct q as [n d]. cbn. intros H. apply Z.compare_eq in H. subst. reflexivity. Qed.
Lemma sgn_ne_zero q : sgn q <> Eq -> ~ q == 0.
Proof. unfold sgn. destruct q as [n d]. cbn. intros H E. apply H. unfold Qeq in E. cbn in E.
  rewrite Z.mul_1_r in E. subst. reflexivity. Qed.

Lemma q2x_sgn a : xrsgn (q2x a) = xsgn a.
Proof. destruct a; cbn; auto using sgn_rsgn. Qed.
Lemma q2x_inf_of c : q2x (inf_of c) = rinf_of c. Proof. destruct c; reflexivity. Qed.
Lemma cmul_ccmul a b : cmul a b = ccmul a b. Proof. destruct a, b; reflexivity. Qed.

Lemma q2x_neg a : q2x (xq_neg a) = xr_neg (q2x a).
Proof. destruct a; try reflexivity. cbn [xq_neg xr_neg q2x]. now rewrite Q2R_opp. Qed.
Lemma q2x_add a b : q2x (xq_add a b) = xr_add (q2x a) (q2x b).
Proof. destruct a, b; try reflexivity. cbn [xq_add xr_add q2x qr]. now rewrite Q2R_red, Q2R_plus. Qed.
Lemma q2x_sub a b : q2x (xq_sub a b) = xr_sub (q2x a) (q2x b).
Proof. unfold xq_sub, xr_sub. now rewrite q2x_add, q2x_neg. Qed.
Lemma q2x_mul a b : q2x (xq_mul a b) = xr_mul (q2x a) (q2x b).
Proof.
  destruct a as [x| | |], b as [y| | |]; try reflexivity;
    try (cbn [xq_mul xr_mul q2x]; rewrite q2x_inf_of, cmul_ccmul; cbn [xsgn xrsgn]; now rewrite ?sgn_rsgn).
  cbn [xq_mul xr_mul q2x qr]. now rewrite Q2R_red, Q2R_mult.
Qed.
Lemma q2x_div a b : q2x (xq_div a b) = xr_div (q2x a) (q2x b).
Proof.
  destruct a as [x| | |], b as [y| | |]; try reflexivity.
  - cbn [xq_div xr_div q2x]. destruct (Req_EM_T (Q2R y) 0) as [E|E].
    + assert (Hy : y == 0) by (apply eqR_Qeq; rewrite E; unfold Q2R; cbn; lra).
      assert (Hs : sgn y = Eq).
      { unfold sgn. destruct y as [n d]. unfold Qeq in Hy. cbn in *. rewrite Z.mul_1_r in Hy. now subst. }
      rewrite Hs, q2x_inf_of. now rewrite sgn_rsgn.
    + assert (Hs : sgn y <> Eq).
      { intros Hs. apply E. rewrite (Qeq_eqR _ _ (sgn_eq_zero _ Hs)). unfold Q2R; cbn; lra. }
      assert (Hq : q2x (qr (x / y)) = Fin (Q2R x / Q2R y)).
      { cbn [q2x qr]. rewrite Q2R_red, Q2R_div; [reflexivity|]. now apply sgn_ne_zero. }
      destruct (sgn y); [congruence|exact Hq|exact Hq].
  - cbn. f_equal. unfold Q2R; cbn; lra.
  - cbn. f_equal. unfold Q2R; cbn; lra.
  - cbn [xq_div xr_div q2x]. rewrite sgn_rsgn. destruct (sgn y); cbn; reflexivity.
  - cbn [xq_div xr_div q2x]. rewrite sgn_rsgn. destruct (sgn y); cbn; reflexivity.
Qed.
Lemma Q2R_abs q : Q2R (Qabs q) = Rabs (Q2R q).
Proof.
  destruct (Qlt_le_dec q 0) as [H|H].
  - rewrite Qabs_neg by (apply Qlt_le_weak; exact H). rewrite Q2R_opp.
    apply Qlt_Rlt in H. replace (Q2R 0) with 0%R in H by (unfold Q2R; cbn; lra).
    rewrite Rabs_left; lra.
  - rewrite Qabs_pos by exact H. apply Qle_Rle in H.
    replace (Q2R 0) with 0%R in H by (unfold Q2R; cbn; lra). rewrite Rabs_right; lra.
Qed.
Lemma q2x_abs a : q2x (xq_abs a) = xr_abs (q2x a).
Proof. destruct a; try reflexivity. cbn [xq_abs xr_abs q2x]. now rewrite Q2R_abs. Qed.

Lemma q2x_ltb a b : xq_ltb a b = xr_ltb (q2x a) (q2x b).
Proof.
  destruct a as [x| | |], b as [y| | |]; try reflexivity. cbn.
  destruct (Rlt_dec (Q2R x) (Q2R y)) as [H|H].
  - apply Rlt_Qlt in H. unfold Qlt in H. unfold Qcompare. now rewrite (proj2 (Z.compare_lt_iff _ _) H).
  - destruct (x ?= y) eqn:E; try reflexivity. exfalso. apply H. apply Qlt_Rlt. exact E.
Qed.
Lemma q2x_eqb a b : xq_eqb a b = xr_eqb (q2x a) (q2x b).
Proof.
  destruct a as [x| | |], b as [y| | |]; try reflexivity. cbn.
  destruct (Req_EM_T (Q2R x) (Q2R y)) as [H|H].
  - apply eqR_Qeq in H. now apply Qeq_bool_iff.
  - destruct (Qeq_bool x y) eqn:E; [|reflexivity]. exfalso. apply H, Qeq_eqR. now apply Qeq_bool_iff.
Qed.
Lemma q2x_leb a b : xq_leb a b = xr_leb (q2x a) (q2x b).
Proof. unfold xq_leb, xr_leb. now rewrite q2x_ltb, q2x_eqb. Qed.
Lemma q2x_sign_pos a : xq_sign_pos a = xr_sign_pos (q2x a).
Proof.
  destruct a as [x| | |]; try reflexivity. cbn. rewrite <- sgn_rsgn. unfold rsgn.
  destruct (Rlt_dec 0 (Q2R x)); destruct (Rlt_dec (Q2R x) 0); try reflexivity; lra.
Qed.

Lemma bool_R_of_eq (a b : bool) : a = b -> bool_R a b.
Proof. intros ->. apply bool_R_refl. Defined.

Lemma ops_hom : Ops_R XQ XR QR XQOps XRvOps.
Proof.
  unfold QR. constructor; cbn.
  all: try reflexivity.
  all: try (unfold Q2R; cbn; f_equal; lra).
  all: try (intros a1 a2 <- b1 b2 <-).
  all: try (intros a1 a2 <-).
  - apply q2x_add. 
  - apply q2x_sub.
  - apply q2x_mul.
  - apply q2x_div.
  - reflexivity.
  - apply q2x_abs.
  - apply q2x_neg.
  - apply bool_R_of_eq, q2x_ltb.
  - apply bool_R_of_eq, q2x_leb.
  - apply bool_R_of_eq, q2x_eqb.
  - intros n1 n2 Hn. apply N_R_eq in Hn. subst. cbn. unfold Q2R. cbn. f_equal. lra.
  - apply bool_R_of_eq, q2x_sign_pos.
Qed.

(* ------------------------------------------------------------------ the interpreter level *)
Definition map_bar {A B} (f : A -> B) (b : Bar A) : Bar B :=
  mkBar (f (b_open b)) (f (b_high b)) (f (b_low b)) (f (b_close b)) (f (b_volume b)).

Definition map_op {A B} (f : A -> B) (o : @op A) : @op B :=
  match o with
  | ONew s k p => ONew s k (mkParams (p1 p) (p2 p) (p3 p) (f (pm p)))
  | ODef s k => ODef s k
  | ONext s x => ONext s (f x)
  | OBar s b => OBar s (map_bar f b)
  | OItem s b => OItem s (map_bar f b)
  | OReset s => OReset s
  | OClone s d => OClone s d
  | OSerde s => OSerde s
  | OProbe s => OProbe s
  | ODrop s => ODrop s
  | OBuild calls => OBuild (map (fun c => (fst c, f (snd c))) calls)
  end.

Definition map_obs {A B} (f : A -> B) (o : @obs A) : @obs B :=
  match o with
  | BOk => BOk | BErr e => BErr e | BPanic => BPanic | BDead => BDead | BNoScalar => BNoScalar
  | BOut l => BOut (map f l)
  | BProbe k args m p => BProbe k args (option_map f m) p
  | BBuilt b => BBuilt (map_bar f b)
  end.

Lemma Kind_R_refl k : Kind_R k k. Proof. destruct k; constructor. Defined.
Lemma Kind_R_eq a b : Kind_R a b -> a = b. Proof. destruct 1; reflexivity. Defined.
Lemma Setter_R_refl k : Setter_R k k. Proof. destruct k; constructor. Defined.
Lemma TaError_R_eq a b : TaError_R a b -> a = b. Proof. destruct 1; reflexivity. Defined.

Lemma bar_R_map (b : Bar XQ) : Bar_R XQ XR QR b (map_bar q2x b).
Proof. destruct b. constructor; reflexivity. Defined.

Lemma op_R_map (o : @op XQ) : op_R XQ XR QR o (map_op q2x o).
Proof.
  destruct o; cbn [map_op]; constructor;
    try apply nat_R_refl; try apply Kind_R_refl; try apply bar_R_map; try reflexivity.
  - destruct p. constructor; try apply N_R_refl. reflexivity.
  - induction calls as [|[s x] r IH]; cbn [map]; constructor; [|exact IH].
    constructor; [apply Setter_R_refl|reflexivity].
Defined.

Lemma ops_R_map (ops : list (@op XQ)) : list_R _ _ (op_R XQ XR QR) ops (map (map_op q2x) ops).
Proof. induction ops; cbn [map]; constructor; auto using op_R_map. Defined.

Lemma list_R_map (l1 : list XQ) l2 : list_R _ _ QR l1 l2 -> l2 = map q2x l1.
Proof. induction 1 as [|a b Hab r1 r2 _ IH]; cbn [map]; [reflexivity|]. unfold QR in Hab. now subst. Qed.
Lemma list_N_R_eq (l1 l2 : list N) : list_R _ _ N_R l1 l2 -> l1 = l2.
Proof. induction 1 as [|a b Hab r1 r2 _ IH]; [reflexivity|]. apply N_R_eq in Hab. now subst. Qed.

Lemma obs_R_map (a : @obs XQ) (b : @obs XR) : obs_R XQ XR QR a b -> b = map_obs q2x a.
Proof.
  destruct 1; cbn [map_obs]; try reflexivity.
  - match goal with H : TaError_R _ _ |- _ => apply TaError_R_eq in H; now subst end.
  - match goal with H : list_R _ _ _ _ _ |- _ => apply list_R_map in H; now subst end.
  - repeat match goal with
           | H : Kind_R _ _ |- _ => apply Kind_R_eq in H
           | H : list_R _ _ N_R _ _ |- _ => apply list_N_R_eq in H
           | H : option_R _ _ N_R _ _ |- _ => destruct H as [? ? H|]; [apply N_R_eq in H|]
           | H : option_R _ _ QR _ _ |- _ => destruct H as [? ? H|]; [unfold QR in H|]
           end; subst; reflexivity.
  - match goal with H : Bar_R _ _ _ _ _ |- _ => destruct H end. unfold QR in *. subst. reflexivity.
Qed.

Lemma obss_R_map (a : list (@obs XQ)) (b : list (@obs XR)) :
  list_R _ _ (obs_R XQ XR QR) a b -> b = map (map_obs q2x) a.
Proof. induction 1 as [|x y Hxy r1 r2 _ IH]; cbn [map]; [reflexivity|]. apply obs_R_map in Hxy. now subst. Qed.

(* The exact rational run and the exact real run of the same operation sequence, from the empty
   store, produce the same observations up to the embedding Q -> R. *)
Theorem run_hom (ops : list (@op XQ)) :
  snd (run XRvOps [] (map (map_op q2x) ops)) = map (map_obs q2x) (snd (run XQOps [] ops)).
Proof.
  pose proof (run_R XQ XR QR XQOps XRvOps ops_hom [] [] (list_R_nil_R _ _ _) _ _ (ops_R_map ops)) as H.
  destruct H as [s1 s2 Hs o1 o2 Ho]. cbn [snd]. now apply obss_R_map.
Qed.
Print Assumptions run_hom.
