(* C14 on binary64, whole streams: WeightedMovingAverage fed 2^k x returns 2^k WMA(x) bit for bit (as values), for every stream along
   which the intermediate results of each update are zero or normal before and after the scaling and below 2^1000. Weights and the
   denominator n(n+1)/2 are dimensionless: the same floats in both runs. *)
From Coq Require Import Reals Lra Lia ZArith List Floats.
From Flocq Require Import Core.
From TA Require Import Base Model FloatInst Proofs.Wiring Proofs.FloatErr Proofs.FloatFast Proofs.FloatScale Proofs.FloatScaleSma.
Import ListNotations.
Local Notation O := FOps.
Local Notation float := PrimFloat.float.
Open Scope R_scope.

Theorem fmul_scale_by_r k (a a' c : float) : scaled k a a' -> finF c ->
  Rabs (FR a * FR c) <= BIG -> Rabs ((FR a * FR c) * bpow radix2 k) <= BIG -> zero_or_normal k (FR a * FR c) ->
  scaled k (a * c)%float (a' * c)%float.
Proof.
  intros (Fa & Fa' & Ea) Fc H1 H2 Hz.
  destruct (fmul_exact a c Fa Fc H1) as [F1 E1].
  assert (Eq : FR a' * FR c = (FR a * FR c) * bpow radix2 k) by (rewrite Ea; ring).
  destruct (fmul_exact a' c Fa' Fc) as [F2 E2]; [rewrite Eq; exact H2|].
  split; [exact F1|]. split; [exact F2|]. rewrite E2, E1, Eq. apply RN_mult_bpow0. exact Hz.
Qed.

(* the side conditions of one correctly rounded operation with exact result r *)
Definition okr (k : Z) (r : R) : Prop := Rabs r <= BIG /\ Rabs (r * bpow radix2 k) <= BIG /\ zero_or_normal k r.

Definition rel_wma (k : Z) (s s' : @Wma float) : Prop :=
  wma_period s = wma_period s' /\ wma_index s = wma_index s' /\ wma_count s = wma_count s' /\ wma_weight s = wma_weight s' /\
  scaled k (wma_sum s) (wma_sum s') /\ scaled k (wma_sum_flat s) (wma_sum_flat s') /\ Forall2 (scaled k) (wma_deque s) (wma_deque s').

Definition wma_step_ok (k : Z) (s : @Wma float) (x : float) : Prop :=
  forall old, idx (wma_deque s) (wma_index s) = Ok old ->
    (* sum_flat' = sum_flat - old + x *)
    okr k (FR (wma_sum_flat s) - FR old) /\ okr k (FR (wma_sum_flat s - old)%float + FR x) /\
    (if (wma_count s <? wma_period s)%N
     then forall c, uadd (wma_count s) 1 = Ok c ->
          let w := f_ofN c in let den := (w * (w + 1) / 2)%float in
          finF w /\ finF den /\ FR den <> 0 /\
          okr k (FR x * FR w) /\ okr k (FR (wma_sum s) + FR (x * w)%float) /\ okr k (FR (wma_sum s + x * w)%float / FR den)
     else let w := wma_weight s in let den := (w * (w + 1) / 2)%float in
          finF w /\ finF den /\ FR den <> 0 /\
          okr k (FR (wma_sum s) - FR (wma_sum_flat s)) /\ okr k (FR x * FR w) /\
          okr k (FR (wma_sum s - wma_sum_flat s)%float + FR (x * w)%float) /\
          okr k (FR (wma_sum s - wma_sum_flat s + x * w)%float / FR den)).

Lemma wma_step_pow2 k s s' x x' s1 o : rel_wma k s s' -> scaled k x x' -> wma_step_ok k s x -> wma_next O s x = Ok (s1, o) ->
  exists s1' o', wma_next O s' x' = Ok (s1', o') /\ rel_wma k s1 s1' /\ scaled k o o'.
Proof.
  intros (Ep & Ei & Ec & Ew & Ss & Sf & Sd) Sx Hok E. unfold wma_next in *.
  rewrite <- Ep, <- Ei, <- Ec, <- Ew.
  destruct (idx (wma_deque s) (wma_index s)) as [old| |] eqn:Eo; cbn [bind] in E; try discriminate.
  destruct (idx_rel _ _ _ _ _ Sd Eo) as (old' & Eo' & So). rewrite Eo'. cbn [bind].
  destruct (upd (wma_deque s) (wma_index s) x) as [dq| |] eqn:Eu; cbn [bind] in E; try discriminate.
  destruct (upd_rel _ _ _ _ _ _ _ Sd Sx Eu) as (dq' & Eu' & Sdq). rewrite Eu'. cbn [bind].
  destruct (advance (wma_period s) (wma_index s)) as [ix| |] eqn:Ea; cbn [bind] in E; try discriminate. cbn [bind].
  destruct (Hok old Eo) as ((A1 & A2 & A3) & (B1 & B2 & B3) & Hbr).
  cbn [sub add mul div ofN one two O] in *.
  pose proof (fsub_scale k _ _ _ _ Sf So A1 A2 A3) as Sf1.
  pose proof (fadd_scale k _ _ _ _ Sf1 Sx B1 B2 B3) as Sf2.
  destruct (wma_count s <? wma_period s)%N.
  - destruct (uadd (wma_count s) 1) as [c| |] eqn:Eua; cbn [bind] in E; try discriminate. cbn [bind].
    injection E as <- <-.
    destruct (Hbr c eq_refl) as (Fw & Fden & Nden & (C1 & C2 & C3) & (D1 & D2 & D3) & (G1 & G2 & G3)).
    pose proof (fmul_scale_by_r k x x' (f_ofN c) Sx Fw C1 C2 C3) as Sm.
    pose proof (fadd_scale k _ _ _ _ Ss Sm D1 D2 D3) as Ssum.
    pose proof (fdiv_scale_by k _ _ _ Ssum Fden Nden G1 G2 G3) as Sout.
    eexists _, _. split; [reflexivity|]. split; [|exact Sout].
    repeat split; cbn [wma_period wma_index wma_count wma_weight wma_sum wma_sum_flat wma_deque]; try assumption; try reflexivity;
      try apply Ssum; try apply Sf2.
  - cbn [bind] in E |- *. injection E as <- <-.
    destruct Hbr as (Fw & Fden & Nden & (C1 & C2 & C3) & (D1 & D2 & D3) & (G1 & G2 & G3) & (H1 & H2 & H3)).
    pose proof (fsub_scale k _ _ _ _ Ss Sf C1 C2 C3) as Sd1.
    pose proof (fmul_scale_by_r k x x' (wma_weight s) Sx Fw D1 D2 D3) as Sm.
    pose proof (fadd_scale k _ _ _ _ Sd1 Sm G1 G2 G3) as Ssum.
    pose proof (fdiv_scale_by k _ _ _ Ssum Fden Nden H1 H2 H3) as Sout.
    eexists _, _. split; [reflexivity|]. split; [|exact Sout].
    repeat split; cbn [wma_period wma_index wma_count wma_weight wma_sum wma_sum_flat wma_deque]; try assumption; try reflexivity;
      try apply Ssum; try apply Sf2.
Qed.

Fixpoint wma_run_ok (k : Z) (s : @Wma float) (xs : list float) : Prop :=
  match xs with
  | [] => True
  | x :: xs => wma_step_ok k s x /\ exists s1 o, wma_next O s x = Ok (s1, o) /\ wma_run_ok k s1 xs
  end.

Theorem wma_stream_pow2 k : forall xs xs' s s', rel_wma k s s' -> Forall2 (scaled k) xs xs' -> wma_run_ok k s xs ->
  Forall2 (scaled k) (res_outs (wma_next O) s xs) (res_outs (wma_next O) s' xs').
Proof.
  induction xs as [|x xs IH]; intros xs' s s' Hr Hx Hok; inversion Hx as [|? x' ? xs2 Sx Hx']; subst; cbn [res_outs]; [constructor|].
  destruct Hok as (Hs & s1 & o & E & Hn). rewrite E.
  destruct (wma_step_pow2 k s s' x x' s1 o Hr Sx Hs E) as (s1' & o' & E' & Hr' & So). rewrite E'.
  constructor; [exact So|]. apply IH; [exact Hr'|exact Hx'|exact Hn].
Qed.

Lemma rel_wma_new k p s : wma_new O p = Ok s -> rel_wma k s s.
Proof.
  intros H. unfold wma_new in H. destruct (p =? 0)%N; [discriminate|].
  destruct (alloc p (zero O)) as [dq| |] eqn:Ea; cbn [bind] in H; try discriminate. injection H as <-.
  repeat split; cbn [wma_period wma_index wma_count wma_weight wma_sum wma_sum_flat wma_deque]; try reflexivity; try (rewrite FR_zero; ring).
  unfold alloc in Ea. destruct (_ <=? _)%N in Ea; [|discriminate]. injection Ea as <-.
  induction (N.to_nat p) as [|n IHn]; cbn; constructor; [apply scaled_zero|exact IHn].
Qed.

Theorem wma_pow2_covariant k p s xs xs' : wma_new O p = Ok s -> Forall2 (scaled k) xs xs' -> wma_run_ok k s xs ->
  Forall2 (scaled k) (res_outs (wma_next O) s xs) (res_outs (wma_next O) s xs').
Proof. intros H Hx Hok. apply (wma_stream_pow2 k xs xs' s s); [apply (rel_wma_new k p); exact H|exact Hx|exact Hok]. Qed.

