# C03 — Oscillators equal their documented formulas wherever these are well-conditioned
from props.util import *

KINDS = ["RSI", "FAST", "SLOW", "ROC", "ER", "PPO", "CCI", "MFI", "OBV"]
t2_checker = "check_t2_osc"
aux_big = True   # also run the auxiliary big-period family (periods 2500 / 4100, two ring wraps) through the bit-exact tie
rule = ("RSI, FAST, SLOW, ROC, ER, PPO, CCI, MFI, OBV on positive prices / valid bars: (A) short sequences over small alphabets with equal "
        "neighbours, flat bars inside non-flat windows, zero volume, for periods 1..5; (B) seeded streams (walk, periodic, plateaus, gaps, "
        "tiny and huge units) with periods up to 512. Every prefix is compared bit-exactly with the float model (T1) and, for RSI, FAST, ROC, "
        "PPO line, CCI, MFI, OBV, within tau+(t)*c*scale of the exact-rational instance (T2), c = condition number computed exactly from the "
        "exact instance's state, skipped where the property does not claim (c > 1e6, MFI c > 1000, zero denominator). EfficiencyRatio, "
        "SlowStochastic and the PPO signal/histogram are tied by T1 only. Non-trivial: distinct case longer than the period, inputs not all equal")
assumptions = ["tau+(t) >= tau(t) and c >= the property's condition number, so the check never demands more than the property",
               "ER / SLOW / PPO signal: bit-exact model correspondence only (their conditioning depends on the whole history)"]


def gen_cases(ctx):
    r = ctx.rng
    rot = Rot(r)
    cases = []
    for ind in KINDS:
        grid = params_grid(ind, [1, 2, 3, 5])
        if ind == "PPO":
            grid = [(a, b, c, 0.0) for a in (1, 2, 3) for b in (1, 2, 3) for c in (1, 2, 3)] + [(9, 26, 9, 0.0), (26, 12, 26, 0.0)]
        else:
            grid = r.sample(grid, min(len(grid), 5 if not ctx.thorough else 16))
        big = [(r.choice([9, 14, 26, 100, 512]), r.choice([3, 12]), r.choice([2, 9]), 0.0) for _ in range(2 if not ctx.thorough else 6)]
        for gi, pr in enumerate(grid + big):
            k = nper(ind)
            pr = tuple(pr[i] if i < k else 0 for i in range(3)) + (0.0,)
            p = max(pr[:3] + (1,))
            for rep in range((3 if not ctx.thorough else 8) if ind != "PPO" else 1):
                n = r.choice([6, 3 * p + 5]) if gi < len(grid) else min(2 * p + 30, 700)
                use_bars = ind in NO_SCALAR or (ind in ("FAST", "SLOW") and rep % 2 == 1)
                if use_bars:
                    st = rot.pick((ind, "b"), ["walk", "segments", "gaps", "grid", "ulpbars"])
                    bars = bar_stream(r, n, st, p=p)
                    if st == "grid":
                        bars = [(b[0], b[1], b[2], b[3], b[4]) for b in bars]
                    feeds = [("b", 0) + b for b in bars]
                else:
                    st = rot.pick((ind, "n"), ["walk", "ties", "periodic", "pgrid", "flatafter", "segments", "uniform", "ulps", "tight"])
                    feeds = [("n", 0, x) for x in scalar_stream(r, n, st, p=p, positive=True)]
                cases.append(Case("%s_g%d_%d" % (ind, gi, rep), [new_op(0, ind, pr)] + feeds, dump=(0,) if p <= 64 else (),
                                  meta={"ind": ind, "params": pr, "n": n, "style": st}))
    return with_scaled(cases, r, frac=0.3)


def nontrivial(c):
    vals = [tuple(o[2:]) for o in c.ops[1:]]
    return len(vals) > max(c.meta["params"][:3]) and len(set(vals)) > 1


def t2_select(c):
    # moves of one unit in the last place: the direction tests of MFI / OBV / RSI and the window extremes of the stochastics are
    # discontinuous there (the float typical price may tie where the exact one moves), i.e. not well-conditioned: T1 only
    if c.meta.get("style") in ("ulps", "ulpbars"):
        return False
    if c.meta["ind"] in ("RSI", "PPO"):      # exact EMA: denominators grow like (n+1)^t
        return c.meta["n"] <= 40
    return c.meta["ind"] not in ("ER", "SLOW") and c.meta["n"] <= 120


def t2_violation(ctx, c, r):
    cut = Case(c.cid + "_cut", c.ops[:r], dump=(), meta=c.meta)
    cut.obs = c.obs[:r]
    return Violation("%s%s: output after %d inputs (%s) leaves tau(t)*c*scale of the documented formula evaluated from scratch (exactly) on the history"
                     % (c.meta["ind"], c.meta["params"][:3], r - 1, c.obs[r - 1]), case=cut, detail={"first_failing_op": r})


def check_impl(ctx, cases):
    out = []
    for c in cases:
        ind = c.meta["ind"]
        first = f_of(c.obs[1]) if len(c.obs) > 1 else None
        want = {"RSI": 50.0, "MFI": 50.0, "ER": 1.0, "FAST": 50.0, "SLOW": 50.0, "ROC": 0.0}.get(ind)
        if ind in ("FAST", "SLOW") and c.ops[1][0] != "n":
            want = None     # on bars the first output is the formula on that bar's own high/low
        if want is not None and first is not None and first[0] != want:
            out.append(Violation("%s%s: first output is %r, documented %r" % (ind, c.meta["params"][:3], first[0], want), case=c))
    ctx.stats["styles"] = sorted({c.meta["style"] for c in cases})
    return out
