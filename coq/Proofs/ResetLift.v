(* C04 for the indicators built on Minimum / Maximum: after reset, FastStochastic (scalar and bar paths), SlowStochastic
   and ChandelierExit are observationally equal to freshly constructed ones on every continuation whose values are
   totally ordered by the carrier's comparison (the hypothesis of min_reset_equiv / max_reset_equiv). *)
From Coq Require Import List NArith Lia.
From TA Require Import Base Model Proofs.Prims Proofs.WF Proofs.GenericProofs Proofs.MinMaxProofs Proofs.Wiring Proofs.Osc.
Import ListNotations.
Open Scope N_scope.

Section L.
Context {F : Type} (O : Ops F).

Lemma min_outs_res (s : @Min F) xs : min_outs' O s xs = min_outs O s xs.
Proof.
  revert s; induction xs as [|x xs IH]; intros s; [reflexivity|]. unfold min_outs' in *. cbn [res_outs min_outs].
  destruct (min_next O s x) as [[s' o]| |]; try reflexivity; try (f_equal; apply IH).
Qed.
Lemma max_outs_res (s : @Max F) xs : max_outs' O s xs = max_outs O s xs.
Proof.
  revert s; induction xs as [|x xs IH]; intros s; [reflexivity|]. unfold max_outs' in *. cbn [res_outs max_outs].
  destruct (max_next O s x) as [[s' o]| |]; try reflexivity; try (f_equal; apply IH).
Qed.

Lemma fast_reset_parts (s s1 s0 : @Fast F) : wf_fast s -> fast_reset O s = Ok s1 -> fast_new O (fast_period s) = Ok s0 ->
  exists mn1 mx1 mn0 mx0, s1 = mkFast (fast_period s) mn1 mx1 /\ s0 = mkFast (fast_period s) mn0 mx0 /\
    min_reset O (fast_minimum s) = Ok mn1 /\ max_reset O (fast_maximum s) = Ok mx1 /\
    min_new O (min_period (fast_minimum s)) = Ok mn0 /\ max_new O (max_period (fast_maximum s)) = Ok mx0.
Proof.
  intros (W1 & W2 & P1 & P2) E1 E0. unfold fast_reset in E1. unfold fast_new in E0.
  destruct (min_reset O (fast_minimum s)) as [mn1| |] eqn:A1; cbn in E1; try discriminate.
  destruct (max_reset O (fast_maximum s)) as [mx1| |] eqn:A2; cbn in E1; try discriminate. injection E1 as <-.
  destruct (min_new O (fast_period s)) as [mn0| |] eqn:B1; cbn in E0; try discriminate.
  destruct (max_new O (fast_period s)) as [mx0| |] eqn:B2; cbn in E0; try discriminate. injection E0 as <-.
  exists mn1, mx1, mn0, mx0. rewrite P1, P2. repeat split; assumption.
Qed.

Theorem fast_reset_equiv : forall (s s1 s0 : @Fast F) (xs : list F),
  min_order_ok O xs -> max_order_ok O xs -> wf_fast s -> fast_reset O s = Ok s1 -> fast_new O (fast_period s) = Ok s0 ->
  fast_outs O s1 xs = fast_outs O s0 xs.
Proof.
  intros s s1 s0 xs Hmin Hmax W E1 E0. pose proof W as (W1 & W2 & _).
  destruct (fast_reset_parts s s1 s0 W E1 E0) as (mn1 & mx1 & mn0 & mx0 & -> & -> & A1 & A2 & B1 & B2).
  rewrite !fast_wiring, !min_outs_res, !max_outs_res.
  rewrite (min_reset_equiv O _ mn1 mn0 xs Hmin W1 A1 B1), (max_reset_equiv O _ mx1 mx0 xs Hmax W2 A2 B2). reflexivity.
Qed.

Theorem fast_bar_reset_equiv : forall (s s1 s0 : @Fast F) (bs : list (Bar F)),
  min_order_ok O (map b_low bs) -> max_order_ok O (map b_high bs) -> wf_fast s ->
  fast_reset O s = Ok s1 -> fast_new O (fast_period s) = Ok s0 ->
  fast_bar_outs O s1 bs = fast_bar_outs O s0 bs.
Proof.
  intros s s1 s0 bs Hmin Hmax W E1 E0. pose proof W as (W1 & W2 & _).
  destruct (fast_reset_parts s s1 s0 W E1 E0) as (mn1 & mx1 & mn0 & mx0 & -> & -> & A1 & A2 & B1 & B2).
  rewrite !fast_bar_wiring, !min_outs_res, !max_outs_res.
  rewrite (min_reset_equiv O _ mn1 mn0 _ Hmin W1 A1 B1), (max_reset_equiv O _ mx1 mx0 _ Hmax W2 A2 B2). reflexivity.
Qed.

Theorem slow_reset_equiv : forall (s s1 s0 : @Slow F) (xs : list F),
  min_order_ok O xs -> max_order_ok O xs -> wf_slow O s -> slow_reset O s = Ok s1 ->
  slow_new O (fast_period (slow_fast s)) (ema_period (slow_ema s)) = Ok s0 ->
  slow_outs O s1 xs = slow_outs O s0 xs.
Proof.
  intros s s1 s0 xs Hmin Hmax (Wf & We) E1 E0. unfold slow_reset in E1. unfold slow_new in E0.
  destruct (fast_reset O (slow_fast s)) as [f1| |] eqn:A; cbn in E1; try discriminate. injection E1 as <-.
  destruct (fast_new O (fast_period (slow_fast s))) as [f0| |] eqn:B; cbn in E0; try discriminate.
  rewrite (ema_reset_new O _ We) in E0. cbn in E0. injection E0 as <-.
  rewrite !slow_wiring. rewrite (fast_reset_equiv _ f1 f0 xs Hmin Hmax Wf A B). reflexivity.
Qed.

Theorem ce_reset_equiv : forall (s s1 s0 : @Ce F) (bs : list (Bar F)),
  min_order_ok O (map b_low bs) -> max_order_ok O (map b_high bs) -> wf_ce O s -> ce_reset O s = Ok s1 ->
  ce_new O (ema_period (atr_ema (ce_atr s))) (ce_multiplier s) = Ok s0 ->
  ce_outs O s1 bs = ce_outs O s0 bs.
Proof.
  intros s s1 s0 bs Hmin Hmax (Wa & W1 & W2 & P1 & P2) E1 E0. unfold ce_reset in E1. unfold ce_new, atr_new in E0.
  destruct (min_reset O (ce_min s)) as [mn1| |] eqn:A1; cbn in E1; try discriminate.
  destruct (max_reset O (ce_max s)) as [mx1| |] eqn:A2; cbn in E1; try discriminate. injection E1 as <-.
  rewrite (ema_reset_new O _ Wa) in E0. cbn in E0.
  destruct (min_new O _) as [mn0| |] eqn:B1; cbn in E0; try discriminate.
  destruct (max_new O _) as [mx0| |] eqn:B2; cbn in E0; try discriminate. injection E0 as <-.
  rewrite <- P1 in B1. rewrite <- P2 in B2.
  rewrite !ce_wiring, !min_outs_res, !max_outs_res.
  rewrite (min_reset_equiv O _ mn1 mn0 _ Hmin W1 A1 B1), (max_reset_equiv O _ mx1 mx0 _ Hmax W2 A2 B2).
  unfold atr_reset, tr_reset, tr_new. reflexivity.
Qed.
End L.
