# C09 — Dispersion measures are non-negative and bands are ordered around their middle
from props.util import *

aux_big = True   # also run the auxiliary big-period family (periods 2500 / 4100, two ring wraps) through the bit-exact tie
rule = ("SD, MAD >= 0 and never NaN; TR, ATR >= 0 for bars with low <= high; MIN <= MAX on the same stream; lower <= average <= upper for BB and KC with "
        "multipliers {0, 0.5, 2, 1e6}; CE long <= window max, short >= window min; MACD / PPO histogram == line - signal exactly; SMA, WMA within "
        "[window min, window max] and EMA within [history min, history max] up to tau(t)*maxmag: cancellation-prone streams (large values then flat, "
        "nearly flat after spikes), signed values up to 1e12, bars at negative price levels, tiny units, periods 1..16 and sampled to 64; all runs also compared bit-exactly with "
        "the float model. Plus two 4400-input runs per indicator (plain; with 10^7 x spikes at inputs 300 and 2048) and tight windows (relative spread 1e-12..1e-4). Every third case also runs as a copy with one reset() after the window has wrapped. Non-trivial: distinct case longer than the period with inputs not all equal")
assumptions = ["window extremes for the bound checks are computed by the driver from the inputs (exact comparisons)"]

KINDS = ["SD", "MAD", "TR", "ATR", "BB", "KC", "CE", "MACD", "PPO", "SMA", "WMA", "EMA", "MINMAX"]


def cancel_stream(r, n, p):
    """large values, then a flat / nearly flat stretch: where a running variance can go negative"""
    big = r.choice([1e6, 1e9, 1e12, 3.3e7])
    k = r.randint(1, max(2, n // 3))
    xs = [big * r.uniform(0.5, 1.5) * r.choice([1, 1, -1]) for _ in range(k)]
    lvl = r.choice([1.0, 0.1, 123.456, big * 1e-9])
    rest = [lvl + r.choice([0.0, 0.0, 1e-9 * lvl, -1e-9 * lvl]) for _ in range(n - k)]
    return xs + rest


def gen_cases(ctx):
    r = ctx.rng
    rot = Rot(r)
    cases = []
    for ind in KINDS:
        periods = [1, 2, 3, 5, 9, 16] + ([r.randint(17, 64)] if not ctx.thorough else r.sample(range(17, 65), 4))
        for p in periods:
            for rep in range(3 if not ctx.thorough else 8):
                n = 3 * p + 20
                m = r.choice([0.0, 0.5, 2.0, 1e6])
                if ind == "MINMAX":
                    xs = scalar_stream(r, n, None, p=p)
                    ops = [new_op(0, "MIN", (p, 0, 0, 0.0)), new_op(1, "MAX", (p, 0, 0, 0.0))]
                    for x in xs:
                        ops += [("n", 0, x), ("n", 1, x)]
                    cases.append(Case("MINMAX_p%d_%d" % (p, rep), ops, dump=(), meta={"ind": ind, "p": p, "n": n, "m": 0.0}))
                    continue
                k = nper(ind)
                pr = (p if k >= 1 else 0, [1, p, 2 * p][rep % 3] if k >= 2 else 0, [1, 3][(rep // 3 + rep) % 2] if k >= 3 else 0, m if ind in HAS_MULT else 0.0)   # second period below / equal to / above the first: every case family, every seed
                if ind in ("TR", "ATR", "CE", "KC") and (ind == "CE" or rep % 2 == 0):
                    bs = bar_stream(r, n, rot.pick((ind, "b"), ["walk", "segments", "gaps", "grid", "tinybars"]), p=p)
                    if rep % 3 == 2:
                        # negative price levels (spreads, futures): the same bars moved below zero; low <= high is preserved by monotone rounding
                        D = 2.0 * max(abs(v) for b in bs for v in b[:4]) + 1.0
                        bs = [(b[0] - D, b[1] - D, b[2] - D, b[3] - D, b[4]) for b in bs]
                    feeds = [("b", 0) + b for b in bs]
                elif rep % 3 == 0:
                    feeds = [("n", 0, x) for x in cancel_stream(r, n, p)]
                else:
                    feeds = [("n", 0, x) for x in scalar_stream(r, n, rot.pick((ind, "n"), ["signed", "walk", "mixed", "flatafter", "segments", "tiny", "huge", "periodic", "tight"]), p=p)]
                if rep % 3 == 1:
                    feeds = sprinkle_serde(feeds, r)
                cases.append(Case("%s_p%d_%d" % (ind, p, rep), [new_op(0, ind, pr)] + feeds, dump=(0,),
                                  meta={"ind": ind, "p": p, "n": n, "m": pr[3]}))
    # seed-independent long runs (4400 inputs; 'spike': the 300th and the 2048th input are 10^7 times larger): maintenance code that
    # only executes every 2^10 / 2^11 / 2^12 updates must leave the outputs inside their ranges too
    for ind in KINDS:
        if ind == "MINMAX":
            continue
        for p, kind in ((3, "spike"), (5, "plain")):
            k = nper(ind)
            pr = (p if k >= 1 else 0, 5 if k >= 2 else 0, 2 if k >= 3 else 0, 2.0 if ind in HAS_MULT else 0.0)
            src = "CE" if ind in ("CE", "TR") else "SMA"
            cases.append(Case("%s_long_p%d" % (ind, p), [new_op(0, ind, pr)] + long_feed(src, 4400, kind), dump=(),
                              meta={"ind": ind, "p": p, "n": 4400, "m": pr[3]}))
    # exact crossovers (seed-independent): with fast period 1 the fast average is the input itself; every third input is made equal to
    # the slow average of the step before, so that fast == slow bit for bit while the signal line is not zero — a shortcut taken
    # "when the averages coincide" must still return histogram = line - signal
    for ind in ("MACD", "PPO"):
        for q in (3, 5):
            kq = 2.0 / (q + 1.0)
            xs, slow = [], None
            base = [2.0, 4.0, 0.0, 5.0, 7.5, 0.0, 6.25, 3.0, 0.0, 9.0, 8.0, 0.0, 1.5, 2.5, 0.0, 4.0]
            for j_, b_ in enumerate(base):
                x = slow if (j_ % 3 == 2 and slow is not None) else b_
                slow = x if slow is None else kq * x + (1.0 - kq) * slow
                xs.append(x)
            cases.append(Case("%s_crossover_q%d" % (ind, q), [new_op(0, ind, (1, q, 2, 0.0))] + [("n", 0, x) for x in xs], dump=(0,),
                              meta={"ind": ind, "p": q, "n": len(xs), "m": 0.0}))
    # known finding K8: finite inputs whose differences overflow binary64 make the running variance inf - inf = NaN
    H = 1.7e308
    for p in (1, 2, 3):
        cases.append(Case("OVF_SD_p%d" % p, [new_op(0, "SD", (p, 0, 0, 0.0))] + [("n", 0, x) for x in (H, -H, H)], dump=(0,),
                          meta={"ind": "SD", "p": p, "n": 3, "m": 0.0, "ovf": True}))
    return sprinkle_resets([c for c in cases if c.meta["ind"] != "MINMAX"]) + [c for c in cases if c.meta["ind"] == "MINMAX"]


def nontrivial(c):
    vals = [tuple(o[2:]) for o in c.ops if o[0] in "nb"]
    return len(vals) > c.meta["p"] and len(set(vals)) > 1


def tau(t):
    return 1e-12 + 1e-15 * t ** 1.5


def check_impl(ctx, cases):
    out = []
    for c in cases:
        ind, p, m = c.meta["ind"], c.meta["p"], c.meta["m"]
        if ind == "MINMAX":
            a, b = outs_of(c, 0), outs_of(c, 1)
            for (i, oa), (j, ob) in zip(a, b):
                x, y = f_of(oa)[0], f_of(ob)[0]
                if not (x <= y) and x == x and y == y:
                    out.append(Violation("Minimum(%d) = %r > Maximum(%d) = %r on the same stream" % (p, x, p, y), case=c))
                    break
            continue
        feeds = c.ops[1:]
        M = 0.0
        hist = []
        for o, ob in zip(feeds, c.obs[1:]):
            if o[0] == "r":          # reset: a new life, the reference history restarts
                hist = []
                continue
            v = f_of(ob)
            if v is None:
                continue
            t = len(hist) + 1        # inputs fed so far (serde round-trips are not inputs)
            vals = [o[2]] if o[0] == "n" else list(o[3:6])
            M = max([M] + [abs(x) for x in vals if x == x and abs(x) != float("inf")])
            hist.append(o)
            bad = None
            if ind in ("SD", "MAD"):
                if v[0] != v[0] or v[0] < 0:
                    bad = "%s(%d) returned %r (must be >= 0 and not NaN) at step %d" % (ind, p, v[0], t)
            elif ind in ("TR", "ATR"):
                if o[0] == "b" and all(h_[0] == "b" and h_[4] <= h_[3] for h_ in hist) and not (v[0] >= 0):
                    bad = "%s returned %r < 0 for bars with low <= high at step %d" % (ind, v[0], t)
                if o[0] == "n" and not (v[0] >= 0) and all(h_[0] == "n" for h_ in hist):
                    bad = "%s returned %r < 0 at step %d" % (ind, v[0], t)
            elif ind in ("BB", "KC"):
                valid = ind == "BB" or all((h_[0] == "n") or (h_[4] <= h_[3]) for h_ in hist)
                if m >= 0 and valid and all(x == x for x in v) and not (v[2] <= v[0] <= v[1]):
                    bad = "%s(%d, %g): bands not ordered at step %d: lower %r, average %r, upper %r" % (ind, p, m, t, v[2], v[0], v[1])
            elif ind == "CE":
                w = hist[max(0, t - p):]
                if m >= 0 and all(h_[4] <= h_[3] for h_ in hist) and all(x == x for x in v):
                    wmax, wmin = max(h_[3] for h_ in w), min(h_[4] for h_ in w)
                    if not (v[0] <= wmax) or not (v[1] >= wmin):
                        bad = "CE(%d, %g): long %r > window max %r or short %r < window min %r at step %d" % (p, m, v[0], wmax, v[1], wmin, t)
            elif ind in ("MACD", "PPO"):
                if all(x == x and abs(x) != float("inf") for x in v) and v[2] != v[0] - v[1]:
                    bad = "%s: histogram %r != line - signal = %r at step %d" % (ind, v[2], v[0] - v[1], t)
            elif ind in ("SMA", "WMA", "EMA"):
                w = hist if ind == "EMA" else hist[max(0, t - p):]
                lo, hi = min(h_[2] for h_ in w), max(h_[2] for h_ in w)
                tol = tau(t) * M
                if v[0] == v[0] and not (lo - tol <= v[0] <= hi + tol):
                    bad = "%s(%d) = %r outside [%r, %r] (+- %.3g) at step %d" % (ind, p, v[0], lo, hi, tol, t)
            if bad:
                key = {"indicator": ind, "class": "intermediate-overflow"} if c.meta.get("ovf") else None
                out.append(Violation(bad, case=c, finding_key=key))
                break
        if len([v for v in out if v.finding_key is None]) > 10:
            break
    return out
