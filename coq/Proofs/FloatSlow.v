(* SlowStochastic on binary64 (scalar path): every output is a finite number in [0, 100 + 1700 (q+1) 2^-53] — it is the float EMA
   (period q) of FastStochastic values, which lie in [0,100] exactly (FloatFast): non-negative by monotone rounding (FloatKc / FloatBars)
   and within the saturating EMA error of a real average of numbers in [0,100]. Streams of any length. *)
From Coq Require Import Reals Lra Lia ZArith List Floats.
From Flocq Require Import Core.
From TA Require Import Base Model FloatInst Proofs.Prims Proofs.WF Proofs.FloatErr Proofs.FloatSma Proofs.FloatEma Proofs.FloatFast Proofs.Wiring Proofs.Osc Proofs.FloatKc Proofs.FloatBars Proofs.FloatBetween.
Import ListNotations.
Open Scope R_scope.
Local Notation O := FOps.
Local Notation float := PrimFloat.float.

Theorem slow_float_range : forall p q s xs, slow_new O p q = Ok s -> (q < 35184372088832)%N -> Forall inb xs ->
  Forall (fun o => finF o /\ 0 <= FR o <= 100 + 1700 * (IZR (Z.of_N q) + 1) * u) (slow_outs O s xs).
Proof.
  intros p q s xs H Hq Hxs. unfold slow_new in H.
  destruct (fast_new O p) as [f| |] eqn:Ef; cbn [bind] in H; try discriminate.
  destruct (ema_new O q) as [e| |] eqn:Ee; cbn [bind] in H; try discriminate. injection H as <-.
  rewrite slow_wiring. pose proof (fast_float_range p f xs Ef Hxs) as HF.
  set (T := fast_outs O f xs) in *.
  assert (HT1 : Forall (fun x => finF x /\ 0 <= FR x <= 100) T) by exact HF.
  assert (H200 : 2 * 100 <= bpow radix2 990) by (apply Rle_trans with (bpow radix2 8); [change (bpow radix2 8) with 256; lra|apply bpow_le; lia]).
  destruct (ema_float_nonneg q e T 100 Ee Hq ltac:(lra) H200 HT1) as [_ Hnn].
  assert (HTok : Forall (okin 100) T) by (eapply Forall_impl; [|exact HT1]; intros x (Fx & H0 & H1); split; [exact Fx|rewrite Rabs_pos_eq; assumption]).
  assert (HTb : allb 0 100 T) by (eapply Forall_impl; [|exact HT1]; intros x (_ & Hb); exact Hb).
  assert (Hl : bpow radix2 (-960) <= 100) by (apply Rle_trans with (bpow radix2 0); [apply bpow_le; lia|change (bpow radix2 0) with 1; lra]).
  assert (Hu : 100 <= bpow radix2 990) by lra.
  pose proof (ema_float_between q e T 100 0 100 Ee ltac:(lia) Hl Hu HTok HTb) as Hbt.
  clear -Hnn Hbt. induction Hnn as [|o l (Fo & Ho0 & _) _ IH]; [constructor|]. pose proof (Forall_inv Hbt) as (_ & _ & Hhi).
  constructor; [|apply IH; exact (Forall_inv_tail Hbt)]. split; [exact Fo|]. split; [exact Ho0|]. lra.
Qed.
