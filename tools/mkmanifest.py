#!/usr/bin/env python3
# regenerates MANIFEST.json from the table below (run from /verif)
import json, os
NOTE = ("Trusted: Coq 8.16.1 kernel and vm_compute; axioms as listed per theorem in the evidence (none for G-theorems; Reals axioms "
        "for X-theorems; primitive-float specification axioms for F-theorems); the hand-written model coq/Model.v, coq/Generic.v of "
        "/repo/src, tied to the code on every run by bit-exact correspondence (outputs, errors, panics, bincode state images) on the "
        "generated cases; the Rust harness and the Python driver. A broken correspondence or proof is reported as a violation; a concrete "
        "failing input is searched on the implementation first.")
T = {
 "C01": ("Theorems: Minimum/Maximum return an element of exactly the last min(t,n) inputs with no smaller/greater element in that window, "
         "for every period, every cursor position and every strict total order with top (C01_min_least, C01_max_greatest); over the exact "
         "carrier (extended reals) SMA, WMA, SD, MAD, BB equal mean / weighted mean / population variance / mean absolute deviation / mean +- m*sd "
         "of the last min(t,n) inputs for every stream. Rounding part (tau) validated by T2 on generated streams: partial.",
         "Rocq proofs (ring-buffer rotation invariant, induction over streams; exact-arithmetic refinement) + bit-exact correspondence + exact-rational tolerance check"),
 "C02": ("Theorems for every number type (bit-exact for binary64): EMA returns its first input and then k*x+(1-k)*prev with k=2/(n+1); TrueRange scalar "
         "and bar definitions; ATR = EMA(TR), MACD, KC, CE equal the hand wiring of standalone streams for every period combination. Agreement "
         "of the float recursion with exact evaluation within tau(t): validated by T2 against the exact-rational instance (partial).",
         "Rocq proofs (stream induction, any carrier) + bit-exact correspondence + exact-rational tolerance check"),
 "C10": ("Theorems for every number type: Next<&T> of the 11 close-only indicators equals Next<f64> on close (Minimum: low, Maximum: high) as an "
         "equation of state and output; bars agreeing on the documented read-set are indistinguishable; open is never read; DataItem = any other "
         "implementor. One-price-bar = scalar path for FAST/SLOW/TR/ATR/KC is checked on the implementation (relational) - partial on that component.",
         "Rocq proofs (definitional equalities over 22 kinds) + bit-exact correspondence + relational checks on the implementation"),
 "C13": ("Theorems: the exact-arithmetic invariants (running state = from-scratch statistic of the current window) are preserved by every step with "
         "no bound on the stream length; variance never negative; Minimum exact forever. Float drift within tau(t): validated on streams of "
         "2*10^4 (quick) / 2*10^6 (thorough) inputs generated identically on both sides, against a fresh exact instance on the current window (partial).",
         "Rocq proofs (unbounded invariants) + twin-generator long-stream correspondence (checkpoints + hash of all outputs) + exact-rational window recomputation"),
 "C15": ("Theorems for every number type (bit-exact): SlowStochastic, ATR, MACD, PPO, KC (scalar and bar), CE, BB (half-width = m*SD, middle = SD's mean), "
         "CCI equal the hand wiring of the standalone streams; over exact reals BB.average = SMA (bb_average_is_sma).",
         "Rocq proofs (stream induction, any carrier) + bit-exact correspondence + composite-vs-public-parts comparison on the implementation"),
 "C17": ("Theorems: over exact reals the last output of SMA, WMA, SD, MAD, BB is a function of the last n inputs (two histories sharing that suffix give "
         "equal outputs); Minimum exactly, for any strict total order. ROC/ER/MFI/CCI/FAST: implementation-level suffix-vs-full comparison and T1 (partial).",
         "Rocq proofs (corollaries of the refinement theorems) + bit-exact correspondence + suffix-vs-full comparison on the implementation"),
 "C03": ("Theorems for every number type (bit-exact): RSI = 100U/(U+D) from two EMAs of gains/losses seeded 0.1; FastStochastic = formula on Minimum/Maximum "
         "(scalar and bar paths), SlowStochastic = EMA(Fast), PPO, CCI, OBV as documented; over exact reals FastStochastic is the formula on the least/greatest "
         "of exactly the last min(t,n) prices. ROC, ER, MFI formulas and all rounding components: T2 against the exact-rational instance with exact "
         "condition numbers (partial).",
         "Rocq proofs (stream induction; order-theoretic window characterisation) + bit-exact correspondence + exact-rational check with condition numbers"),
 "C07": ("Theorems over exact reals (slack 0): FastStochastic in [0,100] on every finite stream; RSI in [0,100] whenever its denominator is non-zero (NaN "
         "exactly otherwise); SlowStochastic in [0,100]. EfficiencyRatio and MFI ranges and the rounding slack: range predicate on the implementation (partial).",
         "Rocq proofs (convexity of the EMA recursion, order theorems) + bit-exact correspondence + range predicate on implementation outputs"),
 "C08": ("Theorems: on a flat window MAD = 0, SD = 0, Bollinger bands collapse (exact), FastStochastic returns the literal 50, TrueRange 0. Refuted for "
         "EfficiencyRatio, RSI, MFI, CCI by vm_compute witnesses on the float model (C08_K3..K6), replayed on the implementation and listed as known "
         "findings; every other degenerate-window failure is a violation.",
         "Rocq proofs + vm_compute refutation witnesses + flat-stretch enumeration on the implementation with known-finding classification"),
 "C09": ("Theorems: MACD/PPO histogram = line - signal for every number type (no slack); Minimum <= Maximum for any order; over exact reals SD, MAD >= 0 and "
         "never NaN, BB lower <= average <= upper for multiplier >= 0, SMA/WMA within the range of their window, EMA within the range of its history, "
         "TrueRange >= 0 for low <= high. KC/CE orderings and float slack: predicate on the implementation (partial).",
         "Rocq proofs (convexity, sums of squares) + bit-exact correspondence + ordering predicates on implementation outputs"),
 "C14": ("Theorems over exact reals: SMA, WMA, SD, MAD, EMA outputs scale by c; SMA, EMA shift by d; for every number type whose negation reverses the "
         "comparison Maximum(x) = -Minimum(-x) exactly. Remaining indicators and the float tolerances: pairwise comparison of implementation runs (partial).",
         "Rocq proofs (homogeneity of the specifications; simulation for Max/Min) + bit-exact correspondence + scaled/shifted run comparison on the implementation"),
 "C04": ("Theorems for every number type: reset of any reachable state equals the constructor's state as a record for the 17 indicators without "
         "Minimum/Maximum inside (C04_reset_is_new), keeps parameters, is idempotent and a no-op on fresh instances; Minimum/Maximum reset is "
         "observationally equal to new on every continuation for every strict total order with top (C04_min_reset_equiv, C04_max_reset_equiv). "
         "Correspondence: histories with NaN/inf/extremes and repeated resets, implementation after reset vs fresh implementation vs model.",
         "Rocq proofs (invariant + record equality; order-theoretic bisimulation for Min/Max) + bit-exact correspondence"),
 "C05": ("Theorems about the store model of instances: frame (ops on other instances never change instance i), clone starts from the source's "
         "state, interleavings with other instances are invisible, equal state + equal history gives equal observations. Tied to the code by "
         "running all merges / random interleavings on the crate, also on 16 threads, and by a purity scan.",
         "Rocq proofs (store non-interference, induction over interleavings) + bit-exact correspondence + 16-thread execution"),
 "C06": ("Theorems for every number type: de(ser s ++ rest) = (s, rest) for every state of every indicator at the bincode item level, hence "
         "serialize-deserialize is the identity and transparent at any point of any operation sequence. Byte layout tied to the code by comparing "
         "bincode bytes with the model's image after every case.",
         "Rocq proofs (parser/printer round-trip) + byte-exact state-image correspondence"),
 "C11": ("Theorems: new returns Err(InvalidParameter) iff some period is 0 and Ok otherwise (any period for allocation-free indicators, up to "
         "isize::MAX/8 for windowed ones); stored parameters equal the arguments; period()/multiplier()/Display arguments are the stored "
         "parameters and never change; Display names and Default constants are pinned literally.",
         "Rocq proofs (case analysis over 22 constructors, invariants) + exhaustive small-period correspondence"),
 "C12": ("Theorems for an arbitrary number type with arbitrary operations (so NaN/inf/extremes/inconsistent bars are covered): from any "
         "well-formed state next / next_bar / reset return normally in the checked-arithmetic model and preserve well-formedness; no operation "
         "sequence of any length on any number of instances yields a panic (C12_run_no_panic).",
         "Rocq proofs (well-formedness invariant; checked usize/index/slice model) + correspondence with catch_unwind, debug build"),
 "C16": ("Theorems over an arbitrary number type state the builder's complete behaviour for every sequence of setter calls; NaN rejection "
         "proved for IEEE binary64 from Coq's float axioms.",
         "Rocq proofs (induction over setter calls; float axioms) + bit-exact correspondence on the value lattice"),
 "C18": ("Theorems: the bincode length of every well-formed state is a closed formula of kind and period (+8 once a TrueRange has seen a bar), "
         "bounded by 256+64*sum(periods); well-formedness (buffer length = period) is invariant along every run. Heap: counting allocator "
         "observation (not modelled) - partial on that component.",
         "Rocq proofs (size formula, invariant) + byte-length correspondence + counting-allocator measurement"),
}
REF = {k: "DESIGN.md section 3 " + k for k in T}
checks = []
for pid in sorted(T):
    if not os.path.exists("lib/props/%s.py" % pid) or not os.path.exists("coq/Properties/%s.v" % pid):
        continue
    text, tech = T[pid]
    checks.append({"property_id": pid, "quick_cmd": "./check %s quick" % pid, "thorough_cmd": "./check %s thorough" % pid,
                   "evidence_file": "/verif/evidence/%s.json" % pid, "replay_cmd_template": "./check --replay {path}",
                   "engine": "coq-model+correspondence",
                   "level_claimed": {"category": "proof", "text": text, "design_ref": REF[pid]},
                   "level_note": NOTE, "technique": tech})
props = [json.loads(l)["id"] for l in open("properties.jsonl")]
claimed = {c["property_id"] for c in checks}
na = []
for p in props:
    if p in claimed:
        continue
    if p == "C19":
        na.append({"property_id": p, "reason": "trait surface / auto-trait facts are judgements of rustc's type checker about client programs; no executable Gallina model can express them (DESIGN.md section 3, C19)"})
    else:
        na.append({"property_id": p, "reason": "check under construction in this session (model and bit-exact correspondence exist; theorems not yet registered)"})
m = {"version": 1,
     "setup_cmd": "cd /verif/coq && coq_makefile -f _CoqProject -o Makefile && timeout 3000 make -j16 && cd /verif/harness && CARGO_NET_OFFLINE=true cargo build --offline",
     "hooks": {"guard": "ta_verif", "enable": "none needed: full state is observable through the crate's derived Serialize/Debug impls; the guard name is reserved, no source commits",
               "baseline_off_cmd": "cd /repo && cargo test --workspace --no-fail-fast --offline", "source_commits": [], "add_only": True},
     "engines": [{"name": "coq-model+correspondence", "path": "/verif/coq, /verif/harness, /verif/lib", "serves_properties": sorted(claimed),
                  "kind_free_text": "Coq 8.16 development (hand-written model generic in the number type, theorems in coq/Properties) + Rust harness on /repo + vm_compute evaluation of the model on the same cases"}],
     "checks": checks, "not_applicable": na,
     "notes": "./check <id> <quick|thorough>; honours VERIF_SEED / VERIF_TIER. Known findings: /verif/known_findings.json. Fix commits in /repo: f340e5f (CCI), 624bd66 (EMA)."}
json.dump(m, open("MANIFEST.json", "w"), indent=1)
print("claimed:", sorted(claimed))
