(* C03 — Oscillators equal their documented formulas wherever these are well-conditioned. Statements only.
   G-theorems (every number type, bit-exact for binary64) give each oscillator as the documented combination of the
   documented parts; X-theorems give FastStochastic on the extremes of exactly the last min(t,p) prices. RateOfChange,
   EfficiencyRatio and MoneyFlowIndex are tied by the exact-rational instance (T2) — partial. *)
From Coq Require Import Reals.
From TA Require Import Base Model XR Proofs.Ring Proofs.Wiring Proofs.Osc Proofs.XFast Proofs.XRoc Proofs.XEr Proofs.XMfi.

(* RSI = 100*U/(U+D), U and D the EMA(n) of gains and losses, both seeded 0.1 (so the first output is 50) *)
Theorem C03_rsi : forall (F : Type) (O : Ops F) xs p (up down : @Ema F) prev is_new,
  rsi_outs O (mkRsi p up down prev is_new) xs =
  map2 (fun u d => div O (mul O (c100 O) u) (add O u d))
       (ema_outs O up (map fst (rsi_moves O is_new prev xs))) (ema_outs O down (map snd (rsi_moves O is_new prev xs))).
Proof. exact (@rsi_wiring). Qed.

(* FastStochastic = 100*(x - low_n)/(high_n - low_n), 50 when they are equal; bars: close against lowest low / highest high *)
Theorem C03_fast : forall (F : Type) (O : Ops F) xs bs p (mn : @Min F) (mx : @Max F),
  fast_outs O (mkFast p mn mx) xs = map3 (stoch O) xs (min_outs' O mn xs) (max_outs' O mx xs) /\
  fast_bar_outs O (mkFast p mn mx) bs =
    map3 (stoch_bar O) (map b_close bs) (min_outs' O mn (map b_low bs)) (max_outs' O mx (map b_high bs)).
Proof. intros. split; [apply fast_wiring|apply fast_bar_wiring]. Qed.

(* ... where, on finite prices, low_n / high_n are the least / greatest of exactly the last min(t,p) inputs *)
Theorem C03_fast_formula : forall p s (xs : list R), fast_new XROps p = Ok s ->
  forall k, (k < length xs)%nat ->
    let w := lastn (N.to_nat p) (firstn (S k) xs) in
    exists mn mx, (forall y, In y w -> (mn <= y <= mx)%R) /\ In mn w /\ In mx w /\
      nth k (fast_outs XROps s (map Fin xs)) XNaN =
      (if Req_EM_T mn mx then Fin 50 else Fin ((nth k xs 0 - mn) / (mx - mn) * 100)%R).
Proof.
  intros p s xs H k Hk w. destruct (fast_char p s xs H) as [_ C]. destruct (C k Hk) as (mn & mx & A & B & C' & D & _).
  exists mn, mx. auto.
Qed.

(* SlowStochastic = EMA(FastStochastic); PPO = 100*(EMA_f - EMA_s)/EMA_s with signal = EMA(PPO), histogram = PPO - signal *)
Theorem C03_slow : forall (F : Type) (O : Ops F) xs (f : @Fast F) (e : @Ema F),
  slow_outs O (mkSlow f e) xs = ema_outs O e (fast_outs O f xs).
Proof. intros. apply slow_wiring. Qed.
Theorem C03_ppo : forall (F : Type) (O : Ops F) xs (f s g : @Ema F), ppo_outs O (mkPpo f s g) xs = ppo_hand O f s g xs.
Proof. intros. apply ppo_wiring. Qed.

(* CCI = (TP - SMA_n(TP)) / (0.015 * MAD_n(TP)), 0 when MAD is 0 *)
Theorem C03_cci : forall (F : Type) (O : Ops F) bs (sm : @Sma F) (md : @Mad F),
  cci_outs O (mkCci sm md) bs =
  map3 (fun tp sma mad => if eqb O mad (zero O) then zero O else div O (sub O tp sma) (mul O mad (c0_015 O)))
       (map (typical O) bs) (sma_outs' O sm (map (typical O) bs)) (mad_outs O md (map (typical O) bs)).
Proof. intros. apply cci_wiring. Qed.

(* OBV = running sum of +volume, -volume or 0 by the sign of the close change, the first close compared with 0 *)
Theorem C03_obv : forall (F : Type) (O : Ops F) bs, obv_outs O (obv_new O) bs = obv_rec O (zero O) (zero O) bs.
Proof. intros. apply obv_from_new. Qed.

(* RateOfChange = 100*(x_t - x_ref)/x_ref with x_ref the price n steps back, the first price until n earlier prices exist
   (x_ref = head of the last n prices of the history before x_t; x_t itself for the very first input) — exact arithmetic,
   every period, every finite stream; the division is IEEE-like (x_ref = 0 gives an infinity or NaN, as in the code) *)
Theorem C03_roc : forall p s (xs : list R), roc_new XROps p = Ok s ->
  roc_outs s (map Fin xs) = roc_spec_stream (N.to_nat p) [] xs.
Proof. exact roc_refines. Qed.
Theorem C03_roc_value : forall p h x, roc_ref p h x <> 0%R ->
  roc_spec p h x = Fin ((x - roc_ref p h x) / roc_ref p h x * 100)%R /\ roc_ref p h x = hd x (lastn p h).
Proof. intros p h x H. split; [apply roc_spec_value; exact H|reflexivity]. Qed.

(* EfficiencyRatio = |x_t - x_{t-n}| / sum |consecutive differences| over those n steps: the prices entering the ratio are the
   last n+1 prices of the history (fewer while warming up: the path then starts at the first price; the very first output is
   computed on the path 0 -> x, hence 1) — exact arithmetic, every period, every finite stream *)
Theorem C03_er : forall p s (xs : list R), er_new XROps p = Ok s ->
  er_outs s (map Fin xs) = er_spec_stream (N.to_nat p) [] xs.
Proof. exact er_refines. Qed.
Theorem C03_er_spec : forall p h x,
  er_spec p h x = div XROps (Fin (Rabs (hd 0%R (er_path p h x) - x))) (Fin (plen (er_path p h x))) /\
  er_path p h x = match h with [] => [0%R; x] | _ => lastn (S p) (h ++ [x]) end.
Proof. intros. split; reflexivity. Qed.

(* MoneyFlowIndex = 100*PMF/(PMF+NMF) over the signed money flows of the last n typical-price moves, first output 50:
   [flows tp0 bars] are the signed flows (+tp*v on a rise of the typical price, -tp*v on a fall, 0 if unchanged), PMF / NMF the sums of
   the positive / negative ones in the window; bars with non-negative raw flow tp*v (positive prices, volume >= 0) *)
Theorem C03_mfi : forall p s b0 bs, mfi_new XROps p = Ok s -> Forall (fun b => (0 <= rawr b)%R) bs ->
  mfi_outs s (map mkm (b0 :: bs)) = Fin 50 :: mfi_spec_stream (N.to_nat p) b0 [] bs.
Proof. exact mfi_refines. Qed.
Theorem C03_mfi_spec : forall p b0 bs,
  mfi_spec p b0 bs = (let w := lastn p (flows (tpr b0) bs) in mul XROps (div XROps (Fin (possum w)) (Fin (possum w + negsum w))) (Fin 100)).
Proof. reflexivity. Qed.

(* CCI, exact arithmetic: (TP - mean w) / (0.015 * MAD w) over the last min(t,n) typical prices w; 0 when MAD w = 0 *)
From TA Require Import Proofs.XBase Proofs.XMad Proofs.XBands Proofs.XCci.
Theorem C03_cci_exact : forall p s bs, cci_new XROps p = Ok s ->
  cci_bar_outs s (map mkb bs) = cci_spec_stream (N.to_nat p) [] (map tp3 bs).
Proof. exact cci_refines. Qed.
Theorem C03_cci_value : forall p h tp, let w := lastn p (h ++ [tp]) in madev w <> 0%R ->
  cci_spec p h tp = Fin ((tp - mean w) / (0.015 * madev w))%R.
Proof. exact cci_value. Qed.

(* RateOfChange for EVERY number type (so bit-exactly for binary64): the output after any history is ((x - r) / r) * 100 computed in that
   number type, r = the first price until n earlier prices exist, then the price n steps back (head of the last n prices) *)
From Coq Require Import List Floats.
From TA Require Import FloatInst Proofs.Wiring Proofs.GRoc.
Theorem C03_roc_any_carrier : forall (F : Type) (O : Ops F) p s xs, roc_new O p = Ok s ->
  res_outs (roc_next O) s xs = groc_stream O (N.to_nat p) [] xs.
Proof. exact @groc_refines. Qed.
Theorem C03_roc_stream_def : forall (F : Type) (O : Ops F) p h x xs,
  groc_stream O p h [] = [] /\
  groc_stream O p h (x :: xs) = Base.mul O (Base.div O (Base.sub O x (hd x (lastn p h))) (hd x (lastn p h))) (c100 O) :: groc_stream O p (h ++ [x]) xs.
Proof. intros. split; reflexivity. Qed.
(* ... hence on binary64 three correctly rounded operations on exact window values: relative error 4 * 2^-53 (Flocq) *)
From Flocq Require Import Core.
From TA Require Import Proofs.FloatErr Proofs.FloatRoc.
Theorem C03_roc_binary64_error : forall p s xs, roc_new FOps p = Ok s -> Forall goodp xs ->
  Forall2 (fun o rho => finF o /\ (Rabs (FR o - rho) <= 4 * u * Rabs rho + tiny)%R)
          (res_outs (roc_next FOps) s xs) (roc_real_stream (N.to_nat p) [] xs).
Proof. exact roc_float_error. Qed.

From Coq Require Import List Floats.
From TA Require Import Generic FloatInst XQ Run2 Par.Hom Par.Var Par.Oracle.
(* the T2 oracle (exact rational run, evaluated by the checks) is the image of the exact real run these
   theorems are about; SD/BB through the variance model (sqrt := identity, Par/Var.v) *)
Theorem C03_t2_oracle_variance : forall fops : list (@op float),
  snd (run XRvOps [] (map (map_op f2xr) fops)) = map (map_obs q2x) (snd (run XQOps [] (map qop fops))).
Proof. exact t2_oracle_variance. Qed.
Theorem C03_t2_oracle : forall fops : list (@op float), forallb no_sqrt_kind fops = true ->
  snd (run XROps [] (map (map_op f2xr) fops)) = map (map_obs q2x) (snd (run XQOps [] (map qop fops))).
Proof. exact t2_oracle. Qed.

(* EfficiencyRatio for EVERY number type (so bit-exactly for binary64): the output after any history is |first - x| / volatility where the
   volatility is accumulated by the code's own loop, in chronological order, over the last n+1 prices (the whole history while fewer
   than n earlier prices exist; the very first input is measured against the zero padding) *)
From TA Require Import Proofs.GEr.
Theorem C03_er_any_carrier : forall (F : Type) (O : Ops F) p s xs, er_new O p = Ok s ->
  res_outs (er_next O) s xs = ger_stream O (N.to_nat p) [] xs.
Proof. exact @ger_refines. Qed.
Theorem C03_er_stream_def : forall (F : Type) (O : Ops F) p h x xs,
  ger_stream O p h [] = [] /\
  ger_stream O p h (x :: xs) = ger_spec O p h x :: ger_stream O p (h ++ [x]) xs /\
  ger_spec O p h x =
    (if (length h <? p)%nat then ger_ratio O (hd (Base.zero O) h) x (h ++ [x])
     else ger_ratio O (hd (Base.zero O) (lastn (S p) (h ++ [x]))) x (tl (lastn (S p) (h ++ [x])))) /\
  (forall first scan, ger_ratio O first x scan =
     Base.div O (Base.abs O (Base.sub O first x))
       (fst (fold_left (fun '(volatility, previous) n => (Base.add O volatility (Base.abs O (Base.sub O previous n)), n)) scan (Base.zero O, first)))).
Proof. intros. repeat split; reflexivity. Qed.
