(* C10 — Feeding a bar equals feeding its documented price field; other fields ignored. Statements only. *)
From TA Require Import Base Model Generic Proofs.BarProofs.

(* Next<&T> of the eleven close-only indicators is Next<f64> on close, Minimum on low, Maximum on high —
   as an equation of (new state, output), for every state, every bar and every number type (bit-exact) *)
Theorem C10_bar_is_field : forall (F : Type) (O : Ops F) (s : @St F) (b : Bar F) (f : Field),
  scalar_field (kind_of s) = Some f -> next O s (get_field f b) = Some (next_bar O s b).
Proof. exact (@bar_is_field). Qed.

(* two bars that agree on the fields an indicator is documented to read are indistinguishable to it *)
Theorem C10_bar_unread : forall (F : Type) (O : Ops F) (s : @St F) (b b' : Bar F),
  agree (kind_of s) b b' -> next_bar O s b = next_bar O s b'.
Proof. exact (@bar_unread). Qed.

Theorem C10_open_never_read : forall (F : Type) (O : Ops F) (s : @St F) (o o' h l c v : F),
  next_bar O s (mkBar o h l c v) = next_bar O s (mkBar o' h l c v).
Proof. exact (@open_never_read). Qed.

(* DataItem (built through its builder) behaves exactly like any other implementor carrying the same numbers *)
Theorem C10_item_is_bar : forall (F : Type) (O : Ops F) (st : @store F) (slot : nat) (b : Bar F),
  six_checks O (b_open b) (b_high b) (b_low b) (b_close b) (b_volume b) = true ->
  step O st (OItem slot b) = step O st (OBar slot b).
Proof. exact (@item_is_bar). Qed.

(* the documented read-sets, pinned literally: (open, high, low, close, volume) *)
Theorem C10_read_sets :
  map reads_of all_kinds =
  [(false,false,false,true,false); (false,false,false,true,false); (false,false,false,true,false); (false,false,false,true,false);
   (false,false,false,true,false); (false,false,true,false,false); (false,true,false,false,false); (false,false,false,true,false);
   (false,true,true,true,false); (false,true,true,true,false); (false,false,false,true,false); (false,true,true,true,false);
   (false,true,true,true,false); (false,false,false,true,false); (false,false,false,true,false); (false,false,false,true,false);
   (false,false,false,true,false); (false,true,true,true,false); (false,true,true,true,false); (false,true,true,true,false);
   (false,true,true,true,true); (false,false,false,true,true)].
Proof. reflexivity. Qed.
