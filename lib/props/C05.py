# C05 — Clones and separate instances are independent and deterministic
import os
import re
from props.util import *
from common import REPO, run_harness

no_aux = True   # the clone_from family is part of this property's own cases (judged, not only tied)
rule = ("for each of the 22 indicators: an original (slot 0) is fed a history, cloned into slot 1 at a chosen point, and an unrelated "
        "instance with other parameters lives in slot 2; then the same continuation is fed to original and clone under many merges "
        "(all merges of two length-L sequences for short L, random long interleavings, with unrelated ops on slot 2 in between) and a "
        "fourth instance (slot 3) built with the same parameters is fed history+continuation sequentially; every case is additionally "
        "executed concurrently on 16 OS threads and compared with the sequential result; plus a purity scan of /repo/src. "
        "in every third case the clone target already exists in another fill state — with the same parameters, a larger or a smaller window — so that the harness goes through Clone::clone_from. "
        "Non-trivial: distinct case whose continuation has >= 2 inputs")
assumptions = ["thread interleavings are exercised (16 threads on distinct instances), not modelled",
               "purity scan: no static mut / thread_local / unsafe / Cell / RefCell / Mutex / Atomic / Rc / lazy_static / extern in /repo/src"]

IMPURE = re.compile(r"\b(static\s+mut|thread_local!|unsafe\b|RefCell|\bCell<|Mutex|RwLock|Atomic[A-Z]|\bRc<|lazy_static|once_cell|OnceLock|OnceCell|extern\s+\"|SystemTime|Instant::|rand::|std::env|std::fs|std::net)")


def merges(n, m):
    """all interleavings of n A-steps and m B-steps as strings of 'A'/'B'."""
    if n == 0:
        return ["B" * m]
    if m == 0:
        return ["A" * n]
    return ["A" + s for s in merges(n - 1, m)] + ["B" + s for s in merges(n, m - 1)]


def gen_cases(ctx):
    r = ctx.rng
    cases = []
    L = 3 if not ctx.thorough else 5
    for ind in ALL:
        plist = [1, 2, 3] if nper(ind) > 0 else [0]
        grid = params_grid(ind, plist)
        for gi, pr in enumerate(r.sample(grid, min(len(grid), 2 if not ctx.thorough else 6))):
            p = max(pr[0], pr[1], pr[2], 1)
            other = (pr[0] + 1 if pr[0] else 0, pr[1] + 2 if pr[1] else 0, pr[2] + 1 if pr[2] else 0, pr[3] * 0.5 + 1.0 if ind in HAS_MULT else 0.0)
            hist = feed(r, ind, r.choice([0, 1, p, 2 * p + 1]))
            cont = feed(r, ind, L)
            noise = feed(r, ind, 2 * L + 2, slot=2)
            ms = merges(L, L)
            if len(ms) > (8 if not ctx.thorough else 60):
                ms = r.sample(ms, 8 if not ctx.thorough else 60)
            # long random interleavings
            longs = []
            for _ in range(2 if not ctx.thorough else 6):
                n = r.randint(10, 60 if not ctx.thorough else 400)
                longs.append(("".join(r.choice("AB") for _ in range(2 * n)), n))
            for mi, m in enumerate(ms + [x[0] for x in longs]):
                if mi >= len(ms):
                    n = longs[mi - len(ms)][1]
                    cnt = feed(r, ind, n)
                    # balance the word so that both get exactly n steps
                    word = list("A" * n + "B" * n)
                    r.shuffle(word)
                    m = "".join(word)
                else:
                    cnt = cont
                hist_ = hist
                if mi % 2 == 0:
                    # small-integer grid for every instance: windows of different instances then often share sums,
                    # extrema and evicted values (what a hidden cache keyed on such quantities would confuse)
                    def grid(n):
                        if ind in NO_SCALAR:
                            return [("b", 0) + b for b in bar_stream(r, n, "grid")]
                        return [("n", 0, float(r.choice([1, 2, 3, 2]))) for _ in range(n)]
                    cnt = grid(len(cnt))
                    hist_ = grid(len(hist))
                ops = [new_op(0, ind, pr), new_op(2, ind, other), new_op(3, ind, pr), new_op(4, ind, pr)]
                if mi % 3 == 1:
                    # the clone target already exists (same parameters, another fill state): the harness then goes through
                    # Clone::clone_from, which an implementation may specialise (reuse of the window allocation)
                    # ... with the same parameters (mi = 1, 10), a larger window (mi = 4: stale slots beyond the copied part) or a
                    # smaller one (mi = 7: a ring shorter than the new period), used long enough to be full
                    k_ = nper(ind)
                    tp = pr
                    if mi % 9 == 4 and k_ >= 1:
                        tp = (pr[0] + 2, pr[1] + 2 if k_ >= 2 else 0, pr[2] + 1 if k_ >= 3 else 0, pr[3])
                    elif mi % 9 == 7 and k_ >= 1 and pr[0] > 1:
                        tp = (pr[0] - 1, max(1, pr[1] - 1) if k_ >= 2 else 0, pr[2], pr[3])
                    npre = r.choice([0, 1, p + 1]) if tp == pr else max(tp[:3]) + 3
                    pre = feed(r, ind, npre, slot=1)
                    if tp != pr:
                        # values well above the continuation's, so that a stale slot would win a maximum / distort a sum
                        pre = [(o[0], 1) + tuple((v * 64.0 + 1000.0) if (o[0] == "n" or i_ < 4) and isinstance(v, float) and v == v else v for i_, v in enumerate(o[2:])) for o in pre]
                    ops += [new_op(1, ind, tp)] + pre
                ops += hist_ + [("c", 0, 1)]
                # slot 4: same parameters, a different history drawn from a small grid (so that windows of different
                # instances often share sums / extrema); compared below with a solo run of the same stream
                twin = [("b", 4) + b for b in bar_stream(r, len(m) + 2, "grid")] if ind in NO_SCALAR else \
                    [("n", 4, float(r.choice([1, 2, 3, 2, 1, 3]))) for _ in range(len(m) + 2)]
                ti = 0
                ia = ib = 0
                ni = 0
                for ch in m:
                    if r.random() < 0.3:
                        ops.append(noise[ni % len(noise)])
                        ni += 1
                    if r.random() < 0.6 and ti < len(twin):
                        ops.append(twin[ti])
                        ti += 1
                    if ch == "A":
                        ops.append(cnt[ia]); ia += 1
                    else:
                        o = cnt[ib]; ib += 1
                        ops.append((o[0], 1) + tuple(o[2:]))
                for o in hist_ + cnt:
                    ops.append((o[0], 3) + tuple(o[2:]))
                cases.append(Case("%s_g%d_m%d" % (ind, gi, mi), ops, dump=(0, 1, 3),
                                  meta={"ind": ind, "params": pr[:3], "merge": m if len(m) < 40 else m[:40] + "...", "cont": len(cnt)}))
                solo = [new_op(4, ind, pr)] + twin[:ti]
                cases.append(Case("%s_g%d_m%d_solo" % (ind, gi, mi), solo, dump=(4,),
                                  meta={"ind": ind, "params": pr[:3], "merge": "solo", "cont": ti, "solo_of": "%s_g%d_m%d" % (ind, gi, mi)}))
    # family S: several instances with the SAME parameters, each fed its own small-grid stream, randomly interleaved;
    # each is compared with a solo run of its stream (detects caches shared between instances)
    for ind in ALL:
        for p in ([1, 2, 3] if nper(ind) > 0 else [0]):
            k = nper(ind)
            pr = (p if k >= 1 else 0, p if k >= 2 else 0, p if k >= 3 else 0, 2.0 if ind in HAS_MULT else 0.0)
            nsl = 3
            n = 60 if not ctx.thorough else 400
            streams = []
            for sl in range(nsl):
                if ind in NO_SCALAR:
                    streams.append([("b", sl) + b for b in bar_stream(r, n, "grid")])
                else:
                    streams.append([("n", sl, float(r.choice([1, 2, 3, 2, 2]))) for _ in range(n)])
            ops = [new_op(sl, ind, pr) for sl in range(nsl)]
            pos = [0] * nsl
            order = [sl for sl in range(nsl) for _ in range(n)]
            r.shuffle(order)
            for sl in order:
                ops.append(streams[sl][pos[sl]])
                pos[sl] += 1
            cid = "S_%s_p%d" % (ind, p)
            cases.append(Case(cid, ops, dump=tuple(range(nsl)), meta={"ind": ind, "params": pr[:3], "merge": "same-params x%d" % nsl, "cont": n, "fam": "S"}))
            for sl in range(nsl):
                cases.append(Case("%s_solo%d" % (cid, sl), [new_op(sl, ind, pr)] + streams[sl], dump=(sl,),
                                  meta={"ind": ind, "params": pr[:3], "merge": "solo", "cont": n, "solo_of": cid, "solo_slot": sl}))
    # seed-independent: Clone::clone_from into an existing instance with a larger / smaller / equal window in another fill state
    # (source warming up into a full target; into a fresh larger one), judged here by original-vs-copy equality
    for c_ in aux_clone_cases():
        c_.cid = "cf_" + c_.cid
        c_.meta = {"ind": c_.meta["ind"], "params": (c_.meta["p"], 0, 0), "merge": "clonefrom", "cont": 10, "fam": "clonefrom"}
        cases.append(c_)
    return cases


def nontrivial(c):
    return c.meta["cont"] >= 2


def check_impl(ctx, cases):
    out = []
    # purity scan
    hits = []
    for root, _, files in os.walk(os.path.join(REPO, "src")):
        for fn in files:
            if fn.endswith(".rs"):
                src = open(os.path.join(root, fn)).read()
                src_nc = re.sub(r"//[^\n]*", "", src)
                for m in IMPURE.finditer(src_nc):
                    line = src_nc[:m.start()].count("\n") + 1
                    hits.append("%s:%d:%s" % (os.path.relpath(os.path.join(root, fn), REPO), line, m.group(0)))
    ctx.stats["purity_scan_hits"] = hits
    byid = {c.cid: c for c in cases}
    for c in cases:
        if "solo_of" in c.meta:
            full = byid[c.meta["solo_of"]]
            sl = c.meta.get("solo_slot", 4)
            x, y = outs_of(c, sl), outs_of(full, sl)
            for k in range(len(x)):
                if x[k][1] != y[k][1]:
                    out.append(Violation("%s%s: an instance fed alone returns %s at step %d, but %s when other instances with the same "
                                         "parameters are fed in between (hidden shared state)" % (c.meta["ind"], c.meta["params"], x[k][1], k + 1, y[k][1]), case=full))
                    break
            continue
        if c.meta.get("fam") == "S":
            continue
        if c.meta.get("fam") == "clonefrom":
            # seed-independent clone_from family: after `c 0 1` both instances receive the same inputs until slot 1 is reset
            ci = c.ops.index(("c", 0, 1))
            ri = max(i_ for i_, o_ in enumerate(c.ops) if o_ == ("r", 1))
            a = [(i_, o_) for (i_, o_) in outs_of(c, 0) if i_ > ci]
            b = [(i_, o_) for (i_, o_) in outs_of(c, 1) if ci < i_ < ri]
            for k in range(min(len(a), len(b))):
                if a[k][1] != b[k][1]:
                    out.append(Violation("%s: after clone_from into an existing instance (%s) the copy and the original disagree at step %d: %s vs %s"
                                         % (c.meta["ind"], c.cid, k + 1, a[k][1], b[k][1]), case=c))
                    break
            continue
        a, b, d = outs_of(c, 0), outs_of(c, 1), outs_of(c, 3)
        ci = c.ops.index(("c", 0, 1))
        b = [(i, o) for (i, o) in b if i > ci]      # slot 1 may have existed (and been fed) before it received the clone
        na = len(a) - len(b)       # history length
        for k in range(len(b)):
            if a[na + k][1] != b[k][1]:
                out.append(Violation("%s%s: clone and original disagree at continuation step %d under merge %s: %s vs %s"
                                     % (c.meta["ind"], c.meta["params"], k + 1, c.meta["merge"], a[na + k][1], b[k][1]), case=c))
                break
        for k in range(min(len(a), len(d))):
            if a[k][1] != d[k][1]:
                out.append(Violation("%s%s: an instance with equal parameters and history returns a different output at step %d: %s vs %s"
                                     % (c.meta["ind"], c.meta["params"], k + 1, a[k][1], d[k][1]), case=c))
                break
        if c.meta.get("fam") != "S" and (c.images.get(0) != c.images.get(1) or c.images.get(0) != c.images.get(3)):
            out.append(Violation("%s: final states of original / clone / equal-history instance differ" % c.meta["ind"], case=c))
        if len(out) > 10:
            break
    # 16 threads
    thr = [Case(c.cid, c.ops, c.dump, c.meta) for c in cases]
    diff = run_harness(ctx.binary, thr, "C05thr", threads=16)
    ctx.stats["threaded_cases"] = len(thr)
    for cid in diff[:5]:
        c = [x for x in thr if x.cid == cid][0]
        out.append(Violation("case %s returns different outputs when executed concurrently on 16 threads than sequentially" % cid, case=c))
    if hits and not out:
        # hidden shared state is a modelling assumption of every theorem of this property
        out.append(Violation("purity scan: the crate now contains constructs that can carry hidden shared state: %s" % ", ".join(hits[:5]),
                             kind="correspondence", detail={"hits": hits}))
    return out
