(* Base.v — outcome monad, checked usize arithmetic, slice/ring primitives, the number-type
   record [Ops].  Definitions only (proofs live in Proofs/). *)
From Coq Require Export List NArith ZArith Bool.
Export ListNotations.
Open Scope N_scope.

(* ---- outcomes: Ok / Err (a TaError returned by the crate) / Panic (any Rust panic) ---- *)
Inductive TaError := InvalidParameter | DataItemIncomplete | DataItemInvalid.

Inductive res (A : Type) : Type :=
| Ok (a : A)
| Err (e : TaError)
| Panic.
Arguments Ok {A} a.
Arguments Err {A} e.
Arguments Panic {A}.

Definition bind {A B} (m : res A) (f : A -> res B) : res B :=
  match m with Ok a => f a | Err e => Err e | Panic => Panic end.
Notation "x <- m ;; k" := (bind m (fun x => k)) (at level 61, m at next level, right associativity).
Notation "' pat <- m ;; k" := (bind m (fun x => match x with pat => k end))
  (at level 61, pat pattern, m at next level, right associativity).

Definition is_ok {A} (m : res A) : bool := match m with Ok _ => true | _ => false end.

(* ---- usize: N with the debug-build (checked) semantics ---- *)
Definition USIZE_MAX : N := 18446744073709551615.        (* 2^64 - 1 *)
(* Vec<f64> of [p] elements needs p*8 <= isize::MAX bytes, else "capacity overflow" panic *)
Definition ALLOC_MAX : N := 1152921504606846975.          (* (2^63 - 1) / 8 = 2^60 - 1 *)

Definition uadd (a b : N) : res N := if a + b <=? USIZE_MAX then Ok (a + b) else Panic.

(* ---- slices ---- *)
Definition idx {A} (l : list A) (i : N) : res A :=
  match nth_error l (N.to_nat i) with Some x => Ok x | None => Panic end.

Definition upd {A} (l : list A) (i : N) (x : A) : res (list A) :=
  if (N.to_nat i <? length l)%nat
  then Ok (firstn (N.to_nat i) l ++ x :: skipn (S (N.to_nat i)) l)
  else Panic.

(* &l[a..b] *)
Definition slice {A} (l : list A) (a b : N) : res (list A) :=
  if (a <=? b) && (N.to_nat b <=? length l)%nat
  then Ok (firstn (N.to_nat b - N.to_nat a) (skipn (N.to_nat a) l))
  else Panic.

(* for i in 0..n { l[i] = c } *)
Definition fill {A} (l : list A) (n : N) (c : A) : res (list A) :=
  if (N.to_nat n <=? length l)%nat
  then Ok (repeat c (N.to_nat n) ++ skipn (N.to_nat n) l)
  else Panic.

(* vec![c; n].into_boxed_slice() *)
Definition alloc {A} (n : N) (c : A) : res (list A) :=
  if n <=? ALLOC_MAX then Ok (repeat c (N.to_nat n)) else Panic.

(* index = if index + 1 < period { index + 1 } else { 0 } *)
Definition advance (period index : N) : res N :=
  s <- uadd index 1 ;; Ok (if s <? period then s else 0).

(* ---- the number type ---- *)
Record Ops (F : Type) : Type := {
  zero : F; one : F; two : F; three : F; c100 : F; c50 : F; c0_1 : F; c0_015 : F;
  inf : F; ninf : F;
  add : F -> F -> F; sub : F -> F -> F; mul : F -> F -> F; div : F -> F -> F;
  sqrt : F -> F; abs : F -> F; neg : F -> F;
  ltb : F -> F -> bool; leb : F -> F -> bool; eqb : F -> F -> bool;
  ofN : N -> F;                     (* usize as f64 *)
  is_sign_positive : F -> bool
}.
Arguments zero {F} _. Arguments one {F} _. Arguments two {F} _. Arguments three {F} _.
Arguments c100 {F} _. Arguments c50 {F} _. Arguments c0_1 {F} _. Arguments c0_015 {F} _.
Arguments inf {F} _. Arguments ninf {F} _.
Arguments add {F} _. Arguments sub {F} _. Arguments mul {F} _. Arguments div {F} _.
Arguments sqrt {F} _. Arguments abs {F} _. Arguments neg {F} _.
Arguments ltb {F} _. Arguments leb {F} _. Arguments eqb {F} _.
Arguments ofN {F} _. Arguments is_sign_positive {F} _.

(* Rust's f64::max: the other operand when one is NaN; the first operand on ties (so
   (-0.0).max(0.0) = -0.0, as observed on the implementation in debug and release builds) *)
Definition fmax {F} (O : Ops F) (a b : F) : F :=
  if ltb O a b then b else if eqb O a a then a else b.

(* helpers.rs: max3 *)
Definition max3 {F} (O : Ops F) (a b c : F) : F := fmax O (fmax O a b) c.

Record Bar (F : Type) := mkBar { b_open : F; b_high : F; b_low : F; b_close : F; b_volume : F }.
Arguments mkBar {F}. Arguments b_open {F}. Arguments b_high {F}. Arguments b_low {F}.
Arguments b_close {F}. Arguments b_volume {F}.
