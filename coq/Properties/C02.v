(* C02 — EMA recursion and everything wired from it follow the documented definition. Statements only.
   G-theorems: for every number type, so bit-exact for binary64; the agreement of the floating-point recursion
   with exact evaluation within tau(t) is validated by the exact-rational instance on generated streams. *)
From TA Require Import Base Model Proofs.Wiring.
Open Scope N_scope.

(* first input unchanged, thereafter k*x + (1-k)*previous with k = 2/(n+1) — any period >= 1 *)
Theorem C02_ema_definition : forall (F : Type) (O : Ops F) p (s : @Ema F) x xs, ema_new O p = Ok s ->
  ema_outs O s (x :: xs) = x :: ema_rec O (div O (two O) (add O (ofN O p) (one O))) x xs.
Proof. exact (@ema_definition). Qed.

Theorem C02_tr_definition : forall (F : Type) (O : Ops F) x xs b bs,
  tr_outs O tr_new (x :: xs) = zero O :: tr_outs O (mkTr (Some x)) xs /\
  (forall prev, tr_outs O (mkTr (Some prev)) (x :: xs) = abs O (sub O x prev) :: tr_outs O (mkTr (Some x)) xs) /\
  tr_bar_outs O tr_new (b :: bs) = sub O (b_high b) (b_low b) :: tr_bar_outs O (mkTr (Some (b_close b))) bs /\
  (forall prev, tr_bar_outs O (mkTr (Some prev)) (b :: bs) =
     max3 O (sub O (b_high b) (b_low b)) (abs O (sub O (b_high b) prev)) (abs O (sub O (b_low b) prev))
       :: tr_bar_outs O (mkTr (Some (b_close b))) bs).
Proof. exact (@tr_definition). Qed.

(* ATR = EMA(TrueRange), MACD = (EMA_f - EMA_s, EMA(MACD), MACD - signal), KC = EMA(price | typical) +- m*ATR,
   CE = (Maximum(high) - m*ATR, Minimum(low) + m*ATR): no hypothesis relates the periods (1, equal, fast > slow) *)
Theorem C02_atr : forall (F : Type) (O : Ops F) bs (tr : @Tr F) (e : @Ema F),
  atr_bar_outs O (mkAtr tr e) bs = ema_outs O e (tr_bar_outs O tr bs).
Proof. intros. apply atr_bar_wiring. Qed.

Theorem C02_macd : forall (F : Type) (O : Ops F) xs (f s g : @Ema F),
  macd_outs O (mkMacd f s g) xs = macd_hand O f s g xs.
Proof. intros. apply macd_wiring. Qed.

Theorem C02_kc : forall (F : Type) (O : Ops F) xs bs p m (a : @Atr F) (e : @Ema F),
  kc_outs O (mkKc p m a e) xs = map2 (bands O m) (ema_outs O e xs) (atr_outs O a xs) /\
  kc_bar_outs O (mkKc p m a e) bs = map2 (bands O m) (ema_outs O e (map (typical O) bs)) (atr_bar_outs O a bs).
Proof. intros. split; [apply kc_wiring|apply kc_bar_wiring]. Qed.

Theorem C02_ce : forall (F : Type) (O : Ops F) bs (a : @Atr F) mn mx m,
  ce_outs O (mkCe a mn mx m) bs =
  map3 (fun at_ lo hi => [sub O hi (mul O at_ m); add O lo (mul O at_ m)])
       (atr_bar_outs O a bs) (min_outs' O mn (map b_low bs)) (max_outs' O mx (map b_high bs)).
Proof. intros. apply ce_wiring. Qed.

(* exact arithmetic: the recursion on reals with k = 2/(n+1) in (0,1], and its closed form
   e_t = sum_{i>=2} k (1-k)^(t-i) x_i + (1-k)^(t-1) x_1  ([ema_closed_sum] runs over the inputs after the first, newest first) *)
From Coq Require Import Reals.
From TA Require Import XR Proofs.XEma.
Theorem C02_ema_exact : forall p s (xs : list R), ema_new XROps p = Ok s ->
  ema_outs XROps s (map Fin xs) = map Fin (ema_stream (kreal p) xs) /\ (0 < kreal p <= 1)%R /\ kreal p = (2 / (IZR (Z.of_N p) + 1))%R.
Proof.
  intros p s xs H. split; [exact (ema_outs_xr p s xs H)|]. split; [|reflexivity].
  apply kreal_range. apply (ema_new_xr p s H).
Qed.
Theorem C02_ema_closed_form : forall (k x1 : R) (xs : list R), xs <> [] ->
  last (ema_real k x1 xs) 0%R = (ema_closed_sum k (rev xs) + (1 - k) ^ length xs * x1)%R.
Proof. exact ema_real_last. Qed.
Theorem C02_ema_closed_sum_def : forall k x r, ema_closed_sum k [] = 0%R /\ ema_closed_sum k (x :: r) = (k * x + (1 - k) * ema_closed_sum k r)%R.
Proof. intros. split; reflexivity. Qed.

(* MACD over the exact carrier: line = EMA_fast - EMA_slow, signal = EMA(line), histogram = line - signal, as real streams *)
From Coq Require Import Reals.
From TA Require Import XR Proofs.XEma Proofs.XCov.
Theorem C02_macd_exact : forall p1 p2 p3 s xs, macd_new XROps p1 p2 p3 = Ok s ->
  macd_outs XROps s (map Fin xs) = map (map Fin) (macd_real (kreal p1) (kreal p2) (kreal p3) xs).
Proof. exact macd_exact. Qed.

Theorem C02_atr_exact : forall p a xs, atr_new XROps p = Ok a ->
  atr_outs XROps a (map Fin xs) = map Fin (ema_stream (kreal p) (tr_stream xs)).
Proof. exact atr_exact. Qed.
Theorem C02_kc_exact : forall p m s xs, kc_new XROps p (Fin m) = Ok s ->
  kc_outs XROps s (map Fin xs) = map (map Fin) (kc_real (kreal p) m xs).
Proof. exact kc_exact. Qed.

(* ... and the bar paths: TrueRange of bars max(high - low, |high - prev close|, |low - prev close|) (high - low on the first bar),
   ATR and KeltnerChannel fed bars, and ChandelierExit exactly: long = greatest high of the window - multiplier * ATR,
   short = least low of the window + multiplier * ATR — for every stream of bars with finite prices, every multiplier *)
From Coq Require Import List.
From TA Require Import Proofs.Ring Proofs.XBands Proofs.XCe.
Theorem C02_tr_bar_exact : forall bars pc,
  tr_bar_outs XROps (mkTr (option_map Fin pc)) (map mkb bars) = map Fin (trb_stream pc bars).
Proof. exact tr_bar_exact. Qed.
Theorem C02_trb_definition : forall h l c c0,
  trb None (h, l, c) = (h - l)%R /\ trb (Some c0) (h, l, c) = Rmax (Rmax (h - l) (Rabs (h - c0))) (Rabs (l - c0)).
Proof. intros. split; reflexivity. Qed.
Theorem C02_atr_bar_exact : forall p a bars, atr_new XROps p = Ok a ->
  atr_bar_outs XROps a (map mkb bars) = map Fin (ema_stream (kreal p) (trb_stream None bars)).
Proof. exact atr_bar_exact. Qed.
Theorem C02_kc_bar_exact : forall p m s bars, kc_new XROps p (Fin m) = Ok s ->
  kc_bar_outs XROps s (map mkb bars) = map (map Fin) (kc_bar_real (kreal p) m bars).
Proof. exact kc_bar_exact. Qed.
Theorem C02_ce_exact : forall p mu c bars, ce_new XROps p (Fin mu) = Ok c ->
  let highs := map (fun b : rbar => fst (fst b)) bars in
  let lows := map (fun b : rbar => snd (fst b)) bars in
  let atrs := ema_stream (kreal p) (trb_stream None bars) in
  forall k, (k < length bars)%nat ->
    exists mx mn, nth k (ce_outs XROps c (map mkb bars)) nil = (Fin (mx - nth k atrs 0 * mu) :: Fin (mn + nth k atrs 0 * mu) :: nil)%R /\
      In mx (lastn (N.to_nat p) (firstn (S k) highs)) /\ (forall y, In y (lastn (N.to_nat p) (firstn (S k) highs)) -> (y <= mx)%R) /\
      In mn (lastn (N.to_nat p) (firstn (S k) lows)) /\ (forall y, In y (lastn (N.to_nat p) (firstn (S k) lows)) -> (mn <= y)%R).
Proof. exact ce_exact. Qed.

(* ---- the rounding component, PROVED for ExponentialMovingAverage on binary64 (Flocq): for every period below 2^53 and every
        stream of up to 2^45 finite inputs with magnitudes bounded by M (2^-960 <= M <= 2^990), every output is finite and
        within tau(t)*M of the real recursion with alpha = 2/(n+1) — the rounding of the smoothing factor included ---- *)
From Coq Require Import Reals List Floats.
From Flocq Require Import Core.
From TA Require Import FloatInst Proofs.FloatErr Proofs.FloatSma Proofs.FloatEma.
Theorem C02_ema_binary64_within_tau : forall p s xs M, ema_new FOps p = Ok s -> (p < 9007199254740992)%N ->
  (bpow radix2 (-960) <= M)%R -> (M <= bpow radix2 990)%R -> Forall (okin M) xs -> (INR (length xs) * u <= / 256)%R ->
  let outs := ema_outs FOps s xs in
  let reals := ema_stream (kreal p) (map FR xs) in
  length outs = length xs /\
  forall j, (j < length xs)%nat ->
    finF (nth j outs 0%float) /\
    (Rabs (FR (nth j outs 0%float) - nth j reals 0) <=
     (1 / 10 ^ 12 + 1 / 10 ^ 15 * (INR (j + 1) * R_sqrt.sqrt (INR (j + 1)))) * M)%R.
Proof. exact ema_float_within_tau. Qed.

(* ... and for streams of ANY length the error does not grow at all: the recursion contracts (factor 1 - alpha + 7u), so it
   saturates at 34 u M / alpha = 17 (n+1) 2^-53 M, for every period below 2^47 — binary64 EMA does not drift *)
Theorem C02_ema_binary64_uniform : forall p s xs M, ema_new FOps p = Ok s -> (p < 140737488355328)%N ->
  (bpow radix2 (-960) <= M)%R -> (M <= bpow radix2 990)%R -> Forall (okin M) xs ->
  let outs := ema_outs FOps s xs in
  let reals := ema_stream (kreal p) (map FR xs) in
  length outs = length xs /\
  forall j, (j < length xs)%nat ->
    finF (nth j outs 0%float) /\
    (Rabs (FR (nth j outs 0%float) - nth j reals 0) <= 17 * (IZR (Z.of_N p) + 1) * u * M)%R.
Proof. exact ema_float_uniform. Qed.

(* ... and for AverageTrueRange (scalar path): TrueRange rounds once, the float EMA is within 32 t u M' of the real EMA of its float
   inputs, and the real EMA is 1-Lipschitz in its inputs: within (96 t + 3) * 2^-53 * M <= tau(t) * M of EMA(|x_t - x_{t-1}|) *)
From TA Require Import Proofs.XCov Proofs.FloatAtr.
Theorem C02_atr_binary64_within_tau : forall p a xs M, atr_new FOps p = Ok a -> (p < 9007199254740992)%N ->
  (1 <= M)%R -> (3 * M <= bpow radix2 990)%R -> Forall (okin M) xs -> (INR (length xs) * u <= / 256)%R ->
  let outs := atr_outs FOps a xs in
  let reals := ema_stream (kreal p) (tr_stream (map FR xs)) in
  length outs = length xs /\
  forall j, (j < length xs)%nat ->
    finF (nth j outs 0%float) /\
    (Rabs (FR (nth j outs 0%float) - nth j reals 0) <=
     (1 / 10 ^ 12 + 1 / 10 ^ 15 * (INR (j + 1) * R_sqrt.sqrt (INR (j + 1)))) * M)%R.
Proof. exact atr_float_within_tau. Qed.

(* ... and for the MACD: three float EMAs (each within 17 (n+1) u M of its real EMA, for streams of ANY length: the error saturates),
   two rounded subtractions and the 1-Lipschitz dependence of the signal on the line: every output of every step is within a fixed
   multiple of (n_f + n_s + n_g + 3) * 2^-53 * M of the exact real MACD line / signal / histogram of the same inputs *)
From TA Require Import Proofs.FloatMacd.
Theorem C02_macd_binary64_error : forall pf ps pg s xs M, macd_new FOps pf ps pg = Ok s ->
  (pf < 35184372088832)%N -> (ps < 35184372088832)%N -> (pg < 35184372088832)%N ->
  (1 <= M)%R -> (4 * M <= bpow radix2 990)%R -> Forall (okin M) xs ->
  let A := ebound pf M in let B := ebound ps M in let C := ebound pg M in
  let D := (A + B + 4 * u * M)%R in
  let outs := macd_outs FOps s xs in
  let reals := macd_real (kreal pf) (kreal ps) (kreal pg) (map FR xs) in
  length outs = length xs /\
  forall j, (j < length xs)%nat -> exists l sg h L SG H,
    nth j outs [] = [l; sg; h] /\ nth j reals [] = [L; SG; H] /\ finF l /\ finF sg /\ finF h /\
    (Rabs (FR l - L) <= D)%R /\ (Rabs (FR sg - SG) <= 3 * C + D)%R /\ (Rabs (FR h - H) <= 2 * D + 3 * C + 7 * u * M)%R.
Proof. exact macd_float_error. Qed.
Theorem C02_macd_error_unit : forall p M, ebound p M = (17 * (IZR (Z.of_N p) + 1) * u * M)%R.
Proof. reflexivity. Qed.

(* ... and for AverageTrueRange and KeltnerChannel on scalars, streams of ANY length: ATR within 17 (n+1) u (3M) + 3 u M of the real EMA
   of the real true ranges, and every KeltnerChannel band within Ea + K Et + 24 (1+K) u M of the real band average +- ATR * m, where
   Ea, Et are the EMA / ATR bounds and |m| <= K (any multiplier, negative included) *)
From TA Require Import Proofs.FloatKcErr.
Theorem C02_atr_binary64_uniform : forall p a xs M, atr_new FOps p = Ok a -> (p < 35184372088832)%N ->
  (1 <= M)%R -> (3 * M <= bpow radix2 990)%R -> Forall (okin M) xs ->
  let outs := atr_outs FOps a xs in
  let reals := ema_stream (kreal p) (tr_stream (map FR xs)) in
  length outs = length xs /\
  forall j, (j < length xs)%nat ->
    finF (nth j outs 0%float) /\ (Rabs (FR (nth j outs 0%float) - nth j reals 0) <= atr_ebound p M)%R /\
    (Rabs (nth j reals 0) <= 4 * M)%R.
Proof. exact atr_float_uniform. Qed.
Theorem C02_kc_binary64_error : forall p mu k xs M K, kc_new FOps p mu = Ok k -> (p < 35184372088832)%N ->
  finF mu -> (Rabs (FR mu) <= K)%R -> (1 <= M)%R -> ((1 + K) * M <= bpow radix2 900)%R -> Forall (okin M) xs ->
  let Ea := ebound p M in let Et := atr_ebound p M in
  let D := (Ea + K * Et + 24 * (1 + K) * u * M)%R in
  let outs := kc_outs FOps k xs in
  let reals := kc_real (kreal p) (FR mu) (map FR xs) in
  length outs = length xs /\
  forall j, (j < length xs)%nat -> exists av up lo AV UP LO,
    nth j outs [] = [av; up; lo] /\ nth j reals [] = [AV; UP; LO] /\ finF av /\ finF up /\ finF lo /\
    (Rabs (FR av - AV) <= Ea)%R /\ (Rabs (FR up - UP) <= D)%R /\ (Rabs (FR lo - LO) <= D)%R.
Proof. exact kc_float_error. Qed.

(* ... and the bar paths (no hypothesis low <= high): TrueRange on bars within 3 u M of max(high - low, |high - prev close|, |low - prev close|),
   ATR on bars within the same uniform bound as on scalars, the typical price within 8 u M of (close + high + low) / 3, and every
   KeltnerChannel band on bars within Ea' + K Et + 24 (1+K) u M of the real band, Ea' = 17 (n+1) u (2M) + 8 u M; streams of ANY length *)
From TA Require Import Proofs.XBands Proofs.XCe Proofs.FloatBars Proofs.FloatKcBar.
Theorem C02_tr_bar_binary64_error : forall M, (1 <= M)%R -> (M <= bpow radix2 990)%R -> forall bars (t : @Tr PrimFloat.float), tr_ok M t -> Forall (okbar3 M) bars ->
  let outs := tr_bar_outs FOps t bars in
  let reals := trb_stream (option_map FR (tr_prev_close t)) (map rb bars) in
  length outs = length bars /\ length reals = length bars /\
  forall j, (j < length bars)%nat ->
    finF (nth j outs 0%float) /\ (Rabs (FR (nth j outs 0%float)) <= 3 * M)%R /\ (Rabs (FR (nth j outs 0%float) - nth j reals 0) <= 3 * u * M)%R.
Proof. exact ftr_bar_err_run. Qed.
Theorem C02_atr_bar_binary64_uniform : forall p a bars M, atr_new FOps p = Ok a -> (p < 35184372088832)%N ->
  (1 <= M)%R -> (3 * M <= bpow radix2 990)%R -> Forall (okbar3 M) bars ->
  let outs := atr_bar_outs FOps a bars in
  let reals := ema_stream (kreal p) (trb_stream None (map rb bars)) in
  length outs = length bars /\
  forall j, (j < length bars)%nat ->
    finF (nth j outs 0%float) /\ (Rabs (FR (nth j outs 0%float) - nth j reals 0) <= atr_ebound p M)%R /\ (Rabs (nth j reals 0) <= 4 * M)%R.
Proof. exact atr_bar_float_uniform. Qed.
Theorem C02_typical_binary64_error : forall M b, (1 <= M)%R -> (4 * M <= bpow radix2 900)%R -> okbar3 M b ->
  okin (2 * M) (typical FOps b) /\ (Rabs (FR (typical FOps b) - tpb (rb b)) <= 8 * u * M)%R.
Proof. exact typical_err. Qed.
Theorem C02_kc_bar_binary64_error : forall p mu k bars M K, kc_new FOps p mu = Ok k -> (p < 35184372088832)%N ->
  finF mu -> (Rabs (FR mu) <= K)%R -> (1 <= M)%R -> (4 * (1 + K) * M <= bpow radix2 900)%R -> Forall (okbar3 M) bars ->
  let Ea := (ebound p (2 * M) + 8 * u * M)%R in let Et := atr_ebound p M in
  let D := (Ea + K * Et + 24 * (1 + K) * u * M)%R in
  let outs := kc_bar_outs FOps k bars in
  let reals := kc_bar_real (kreal p) (FR mu) (map rb bars) in
  length outs = length bars /\
  forall j, (j < length bars)%nat -> exists av up lo AV UP LO,
    nth j outs [] = [av; up; lo] /\ nth j reals [] = [AV; UP; LO] /\ finF av /\ finF up /\ finF lo /\
    (Rabs (FR av - AV) <= Ea)%R /\ (Rabs (FR up - UP) <= D)%R /\ (Rabs (FR lo - LO) <= D)%R.
Proof. exact kc_bar_float_error. Qed.

(* ... and ChandelierExit: long = RN(mx - RN(ATR * m)), short = RN(mn + RN(ATR * m)) with mx / mn the greatest high / least low of the
   window (elements of the window, characterised by the binary64 order instance), within K Et + 24 (1+K) u M of mx - ATR_real * m and
   mn + ATR_real * m, for every finite multiplier |m| <= K and streams of ANY length *)
From TA Require Import Proofs.Ring Proofs.MinMaxProofs Proofs.FloatOrder.
Theorem C02_ce_binary64_error : forall p mu c bars M K, ce_new FOps p mu = Ok c -> (p < 35184372088832)%N ->
  finF mu -> (Rabs (FR mu) <= K)%R -> (1 <= M)%R -> (4 * (1 + K) * M <= bpow radix2 900)%R -> Forall (okbar3 M) bars ->
  Forall okF (map b_high bars) -> Forall okF (map b_low bars) ->
  let highs := map b_high bars in let lows := map b_low bars in
  let Et := atr_ebound p M in let D := (K * Et + 24 * (1 + K) * u * M)%R in
  let atrs := ema_stream (kreal p) (trb_stream None (map rb bars)) in
  forall k, (k < length bars)%nat ->
    exists lg sh mx mn, nth k (ce_outs FOps c bars) [] = [lg; sh] /\ finF lg /\ finF sh /\
      greatest_in FOps (lastn (N.to_nat p) (firstn (S k) highs)) mx /\ least_in FOps (lastn (N.to_nat p) (firstn (S k) lows)) mn /\
      (Rabs (FR lg - (FR mx - nth k atrs 0 * FR mu)) <= D)%R /\ (Rabs (FR sh - (FR mn + nth k atrs 0 * FR mu)) <= D)%R.
Proof. exact ce_float_error. Qed.

(* non-vacuity: two ordinary bars, the multipliers 2 and -2.5, M = 100, K = 3 meet every hypothesis of the KeltnerChannel / ChandelierExit
   error theorems above *)
Example C02_float_hypotheses_example :
  (exists k, kc_new FOps 10 2%float = Ok k) /\ (exists c, ce_new FOps 22 3%float = Ok c) /\
  Forall (okbar3 100) ex_bars /\ Forall okF (map b_high ex_bars) /\ Forall okF (map b_low ex_bars) /\
  finF 2%float /\ (Rabs (FR 2%float) <= 3)%R /\ finF (-2.5)%float /\ (Rabs (FR (-2.5)%float) <= 3)%R /\
  (1 <= 100)%R /\ (4 * (1 + 3) * 100 <= bpow radix2 900)%R.
Proof. exact kc_ce_hypotheses_example. Qed.

From Coq Require Import List Floats.
From TA Require Import Generic FloatInst XQ Run2 Par.Hom Par.Var Par.Oracle.
(* the T2 oracle (exact rational run, evaluated by the checks) is the image of the exact real run these
   theorems are about; SD/BB through the variance model (sqrt := identity, Par/Var.v) *)
Theorem C02_t2_oracle_variance : forall fops : list (@op float),
  snd (run XRvOps [] (map (map_op f2xr) fops)) = map (map_obs q2x) (snd (run XQOps [] (map qop fops))).
Proof. exact t2_oracle_variance. Qed.
Theorem C02_t2_oracle : forall fops : list (@op float), forallb no_sqrt_kind fops = true ->
  snd (run XROps [] (map (map_op f2xr) fops)) = map (map_obs q2x) (snd (run XQOps [] (map qop fops))).
Proof. exact t2_oracle. Qed.
