(* C14 on binary64, whole streams, bar paths: TrueRange, AverageTrueRange and KeltnerChannel fed bars whose high / low / close are
   multiplied by 2^k return 2^k times their outputs (as values). Rust's f64::max picks one of its operands and the comparison does not
   change under a positive factor; |.| is exact. *)
From Coq Require Import Reals Lra Lia ZArith List Floats.
From Flocq Require Import Core.
From TA Require Import Base Model FloatInst Proofs.Wiring Proofs.FloatErr Proofs.FloatBars Proofs.FloatScale Proofs.FloatScaleSma Proofs.FloatScaleWma
  Proofs.FloatScaleEma Proofs.FloatScaleKc.
Import ListNotations.
Local Notation O := FOps.
Local Notation float := PrimFloat.float.
Open Scope R_scope.

Lemma fmax_scale j a b a' b' : scaled j a a' -> scaled j b b' -> scaled j (fmax O a b) (fmax O a' b').
Proof.
  intros (Fa & Fa' & Ea) (Fb & Fb' & Eb).
  destruct (fmax_fin a b Fa Fb) as [Hc E1]. destruct (fmax_fin a' b' Fa' Fb') as [Hc' E2].
  split; [destruct Hc as [->| ->]; assumption|]. split; [destruct Hc' as [->| ->]; assumption|].
  rewrite E2, E1, Ea, Eb. pose proof (bpow_gt_0 radix2 j) as Hb.
  unfold Rmax. destruct (Rle_dec (FR a) (FR b)), (Rle_dec (FR a * bpow radix2 j) (FR b * bpow radix2 j)); try reflexivity; exfalso; nra.
Qed.

Definition sbar (k : Z) (b b' : Bar float) : Prop :=
  scaled k (b_high b) (b_high b') /\ scaled k (b_low b) (b_low b') /\ scaled k (b_close b) (b_close b').

Definition trb_step_ok (k : Z) (t : @Tr float) (b : Bar float) : Prop :=
  okr k (FR (b_high b) - FR (b_low b)) /\
  match tr_prev_close t with Some pc => okr k (FR (b_high b) - FR pc) /\ okr k (FR (b_low b) - FR pc) | None => True end.

Lemma trb_step_pow2 k t t' b b' : rel_tr k t t' -> sbar k b b' -> trb_step_ok k t b ->
  rel_tr k (fst (tr_next_bar O t b)) (fst (tr_next_bar O t' b')) /\ scaled k (snd (tr_next_bar O t b)) (snd (tr_next_bar O t' b')).
Proof.
  intros Rt (Sh & Sl & Sc) ((A1 & A2 & A3) & Hpc). unfold tr_next_bar, rel_tr in *. cbn [fst snd tr_prev_close].
  split; [exact Sc|]. cbn [sub abs O].
  pose proof (fsub_scale k _ _ _ _ Sh Sl A1 A2 A3) as S1.
  destruct (tr_prev_close t) as [pc|], (tr_prev_close t') as [pc'|]; try contradiction; [|exact S1].
  destruct Hpc as ((B1 & B2 & B3) & (C1 & C2 & C3)).
  pose proof (fabs_scale k _ _ (fsub_scale k _ _ _ _ Sh Rt B1 B2 B3)) as S2.
  pose proof (fabs_scale k _ _ (fsub_scale k _ _ _ _ Sl Rt C1 C2 C3)) as S3.
  unfold max3. apply fmax_scale; [apply fmax_scale; assumption|exact S3].
Qed.

Definition atrb_step_ok (k : Z) (a : @Atr float) (b : Bar float) : Prop :=
  trb_step_ok k (atr_true_range a) b /\ ema_step_ok k (atr_ema a) (snd (tr_next_bar O (atr_true_range a) b)).

Lemma atrb_step_pow2 k a a' b b' : rel_atr k a a' -> sbar k b b' -> atrb_step_ok k a b ->
  rel_atr k (fst (atr_next_bar O a b)) (fst (atr_next_bar O a' b')) /\ scaled k (snd (atr_next_bar O a b)) (snd (atr_next_bar O a' b')).
Proof.
  intros (Rt & Re) Sb (Ht & He). unfold atr_next_bar.
  destruct (trb_step_pow2 k _ _ b b' Rt Sb Ht) as [Rt' Sd].
  destruct (tr_next_bar O (atr_true_range a) b) as [t d]. destruct (tr_next_bar O (atr_true_range a') b') as [t' d']. cbn [fst snd] in *.
  destruct (ema_step_pow2 k _ _ d d' Re Sd He) as [Re' So].
  destruct (ema_next O (atr_ema a) d) as [e o]. destruct (ema_next O (atr_ema a') d') as [e' o']. cbn [fst snd] in *.
  split; [split; cbn [atr_true_range atr_ema]; assumption|exact So].
Qed.

Definition kcb_step_ok (k : Z) (s : @Kc float) (b : Bar float) : Prop :=
  let s1 := (b_close b + b_high b)%float in let s2 := (s1 + b_low b)%float in let tp := (s2 / 3)%float in
  let at_ := snd (atr_next_bar O (kc_atr s) b) in let av := snd (ema_next O (kc_ema s) tp) in let w := (at_ * kc_multiplier s)%float in
  okr k (FR (b_close b) + FR (b_high b)) /\ okr k (FR s1 + FR (b_low b)) /\ okr k (FR s2 / FR 3%float) /\
  ema_step_ok k (kc_ema s) tp /\ atrb_step_ok k (kc_atr s) b /\ finF (kc_multiplier s) /\
  okr k (FR at_ * FR (kc_multiplier s)) /\ okr k (FR av + FR w) /\ okr k (FR av - FR w).

Lemma kcb_step_pow2 k s s' b b' : rel_kc k s s' -> sbar k b b' -> kcb_step_ok k s b ->
  rel_kc k (fst (kc_next_bar O s b)) (fst (kc_next_bar O s' b')) /\ Forall2 (scaled k) (snd (kc_next_bar O s b)) (snd (kc_next_bar O s' b')).
Proof.
  intros (Ep & Em & Ra & Re) Sb ((T1 & T2 & T3) & (U1 & U2 & U3) & (V1 & V2 & V3) & He & Ha & Fm & (A1 & A2 & A3) & (B1 & B2 & B3) & (C1 & C2 & C3)).
  pose proof Sb as (Sh & Sl & Sc). unfold kc_next_bar. rewrite <- Ep, <- Em. cbn [add div three O] in *.
  pose proof (fadd_scale k _ _ _ _ Sc Sh T1 T2 T3) as S1. pose proof (fadd_scale k _ _ _ _ S1 Sl U1 U2 U3) as S2.
  assert (F3 : finF 3%float) by reflexivity. assert (N3 : FR 3%float <> 0) by (unfold FR; cbn; unfold F2R; cbn; lra).
  pose proof (fdiv_scale_by k _ _ 3%float S2 F3 N3 V1 V2 V3) as Stp.
  destruct (ema_step_pow2 k _ _ _ _ Re Stp He) as [Re' Sav]. destruct (atrb_step_pow2 k _ _ b b' Ra Sb Ha) as [Ra' Sat].
  destruct (ema_next O (kc_ema s) ((b_close b + b_high b + b_low b) / 3)%float) as [e av].
  destruct (ema_next O (kc_ema s') ((b_close b' + b_high b' + b_low b') / 3)%float) as [e' av'].
  destruct (atr_next_bar O (kc_atr s) b) as [a at_]. destruct (atr_next_bar O (kc_atr s') b') as [a' at_'].
  cbn [fst snd add sub mul O] in *.
  pose proof (fmul_scale_by_r k at_ at_' (kc_multiplier s) Sat Fm A1 A2 A3) as Sw.
  pose proof (fadd_scale k _ _ _ _ Sav Sw B1 B2 B3) as Su. pose proof (fsub_scale k _ _ _ _ Sav Sw C1 C2 C3) as Slw.
  split; [repeat split; cbn [kc_period kc_multiplier kc_atr kc_ema]; try reflexivity; first [apply Ra'|apply Re']|].
  constructor; [exact Sav|]. constructor; [exact Su|]. constructor; [exact Slw|constructor].
Qed.

Fixpoint kcb_run_ok (k : Z) (s : @Kc float) (bs : list (Bar float)) : Prop :=
  match bs with [] => True | b :: bs => kcb_step_ok k s b /\ kcb_run_ok k (fst (kc_next_bar O s b)) bs end.

Theorem kc_bar_stream_pow2 k : forall bs bs' s s', rel_kc k s s' -> Forall2 (sbar k) bs bs' -> kcb_run_ok k s bs ->
  Forall2 (Forall2 (scaled k)) (kc_bar_outs O s bs) (kc_bar_outs O s' bs').
Proof.
  induction bs as [|b bs IH]; intros bs' s s' Hr Hx Hok; inversion Hx as [|? b' ? bs2 Sb Hx']; subst; cbn [kc_bar_outs]; [constructor|].
  destruct Hok as [Hs Hn]. destruct (kcb_step_pow2 k s s' b b' Hr Sb Hs) as [Hr' So].
  destruct (kc_next_bar O s b) as [s1 o]. destruct (kc_next_bar O s' b') as [s1' o']. cbn [fst snd] in *.
  constructor; [exact So|]. apply IH; assumption.
Qed.

Fixpoint atrb_run_ok (k : Z) (a : @Atr float) (bs : list (Bar float)) : Prop :=
  match bs with [] => True | b :: bs => atrb_step_ok k a b /\ atrb_run_ok k (fst (atr_next_bar O a b)) bs end.
Theorem atr_bar_stream_pow2 k : forall bs bs' a a', rel_atr k a a' -> Forall2 (sbar k) bs bs' -> atrb_run_ok k a bs ->
  Forall2 (scaled k) (atr_bar_outs O a bs) (atr_bar_outs O a' bs').
Proof.
  induction bs as [|b bs IH]; intros bs' a a' Hr Hx Hok; inversion Hx as [|? b' ? bs2 Sb Hx']; subst; cbn [atr_bar_outs]; [constructor|].
  destruct Hok as [Hs Hn]. destruct (atrb_step_pow2 k a a' b b' Hr Sb Hs) as [Hr' So].
  destruct (atr_next_bar O a b) as [s1 o]. destruct (atr_next_bar O a' b') as [s1' o']. cbn [fst snd] in *.
  constructor; [exact So|]. apply IH; assumption.
Qed.
