(* C17 — Windowed indicators forget: only the last n inputs matter. Statements only.
   Corollaries of the refinement theorems: the output after a history is a function of its last n inputs, so two
   histories sharing that suffix — in particular an arbitrary history and the bare suffix — give the same output;
   exactly in exact arithmetic for the accumulating indicators, and for Minimum/Maximum under any total order. *)
From Coq Require Import Reals.
From TA Require Import Base Model XR Proofs.Ring Proofs.XBase Proofs.XSma Proofs.XWma Proofs.XMad Proofs.XSd Proofs.WF
  Proofs.MinMaxProofs Proofs.ForgetProofs.
Open Scope N_scope.

Theorem C17_sma_forgets : forall p s (h1 h2 : list R), sma_new XROps p = Ok s -> h1 <> [] -> h2 <> [] ->
  lastn (N.to_nat p) h1 = lastn (N.to_nat p) h2 ->
  last (sma_outs s (map Fin h1)) XNaN = last (sma_outs s (map Fin h2)) XNaN.
Proof. exact sma_forgets. Qed.

Theorem C17_wma_forgets : forall p s (h1 h2 : list R), wma_new XROps p = Ok s -> h1 <> [] -> h2 <> [] ->
  lastn (N.to_nat p) h1 = lastn (N.to_nat p) h2 ->
  last (wma_outs s (map Fin h1)) XNaN = last (wma_outs s (map Fin h2)) XNaN.
Proof. exact wma_forgets. Qed.

Theorem C17_sd_forgets : forall p s (h1 h2 : list R), sd_new XROps p = Ok s -> h1 <> [] -> h2 <> [] ->
  lastn (N.to_nat p) h1 = lastn (N.to_nat p) h2 ->
  last (sd_outs s (map Fin h1)) XNaN = last (sd_outs s (map Fin h2)) XNaN.
Proof. exact sd_forgets. Qed.

Theorem C17_mad_forgets : forall p s (h1 h2 : list R), mad_new XROps p = Ok s -> h1 <> [] -> h2 <> [] ->
  lastn (N.to_nat p) h1 = lastn (N.to_nat p) h2 ->
  last (mad_outs s (map Fin h1)) XNaN = last (mad_outs s (map Fin h2)) XNaN.
Proof. exact mad_forgets. Qed.

Theorem C17_bb_forgets : forall p mu s (h1 h2 : list R), bb_new XROps p (Fin mu) = Ok s -> h1 <> [] -> h2 <> [] ->
  lastn (N.to_nat p) h1 = lastn (N.to_nat p) h2 ->
  last (bb_outs s (map Fin h1)) [] = last (bb_outs s (map Fin h2)) [].
Proof. exact bb_forgets. Qed.

(* Minimum (and dually Maximum): exactly, for any strict total order with top; in particular the output after a history
   equals the output of a fresh instance fed only the last n inputs *)
Theorem C17_min_forgets : forall (F : Type) (O : Ops F) (P : F -> Prop) (p : N) (h1 h2 : list F),
  order_on (ltb O) (inf O) P -> 0 < p -> p <= ALLOC_MAX -> Forall P h1 -> Forall P h2 -> h1 <> [] -> h2 <> [] ->
  lastn (N.to_nat p) h1 = lastn (N.to_nat p) h2 ->
  last (min_outs O (mkMin p 0 0 (repeat (inf O) (N.to_nat p))) h1) (inf O) =
  last (min_outs O (mkMin p 0 0 (repeat (inf O) (N.to_nat p))) h2) (inf O).
Proof. exact (@min_forgets). Qed.

(* binary64, inputs free of NaN and -0.0: bit-identical *)
From TA Require Import FloatInst Proofs.FloatOrder.
Theorem C17_min_forgets_binary64 : forall (p : N) (h1 h2 : list PrimFloat.float),
  0 < p -> p <= ALLOC_MAX -> Forall okF h1 -> Forall okF h2 -> h1 <> [] -> h2 <> [] ->
  lastn (N.to_nat p) h1 = lastn (N.to_nat p) h2 ->
  last (min_outs FOps (mkMin p 0 0 (repeat (inf FOps) (N.to_nat p))) h1) (inf FOps) =
  last (min_outs FOps (mkMin p 0 0 (repeat (inf FOps) (N.to_nat p))) h2) (inf FOps).
Proof. intros p h1 h2. exact (min_forgets PrimFloat.float FOps okF p h1 h2 float_order_min). Qed.

(* ---- the remaining windowed indicators (corollaries of their exact refinements, Proofs/Forget2.v) ---- *)
From Coq Require Import List.
From TA Require Import Proofs.Wiring Proofs.XRoc Proofs.XEr Proofs.XMfi Proofs.XBands Proofs.XCci Proofs.Forget2.
Open Scope N_scope.

Theorem C17_max_forgets : forall (F : Type) (O : Ops F) (P : F -> Prop) (p : N) (h1 h2 : list F),
  order_on (fun a b => ltb O b a) (ninf O) P -> 0 < p -> p <= ALLOC_MAX -> Forall P h1 -> Forall P h2 -> h1 <> [] -> h2 <> [] ->
  lastn (N.to_nat p) h1 = lastn (N.to_nat p) h2 ->
  last (max_outs O (mkMax p 0 0 (repeat (ninf O) (N.to_nat p))) h1) (ninf O) =
  last (max_outs O (mkMax p 0 0 (repeat (ninf O) (N.to_nat p))) h2) (ninf O).
Proof. exact max_forgets. Qed.

Theorem C17_max_forgets_binary64 : forall (p : N) (h1 h2 : list PrimFloat.float),
  0 < p -> p <= ALLOC_MAX -> Forall okF h1 -> Forall okF h2 -> h1 <> [] -> h2 <> [] ->
  lastn (N.to_nat p) h1 = lastn (N.to_nat p) h2 ->
  last (max_outs FOps (mkMax p 0 0 (repeat (ninf FOps) (N.to_nat p))) h1) (ninf FOps) =
  last (max_outs FOps (mkMax p 0 0 (repeat (ninf FOps) (N.to_nat p))) h2) (ninf FOps).
Proof. intros p h1 h2. exact (max_forgets PrimFloat.float FOps okF p h1 h2 float_order_max). Qed.

(* FastStochastic (scalar path), exact arithmetic: a function of the last n prices *)
Theorem C17_fast_forgets : forall p s (h1 h2 : list R), fast_new XROps p = Ok s -> h1 <> [] -> h2 <> [] ->
  lastn (N.to_nat p) h1 = lastn (N.to_nat p) h2 ->
  last (fast_outs XROps s (map Fin h1)) XNaN = last (fast_outs XROps s (map Fin h2)) XNaN.
Proof. exact fast_forgets. Qed.

(* CCI: a function of the last n typical prices *)
Theorem C17_cci_forgets : forall p s (b1 b2 : list rbar), cci_new XROps p = Ok s -> b1 <> [] -> b2 <> [] ->
  lastn (N.to_nat p) (map tp3 b1) = lastn (N.to_nat p) (map tp3 b2) ->
  last (cci_bar_outs s (map mkb b1)) XNaN = last (cci_bar_outs s (map mkb b2)) XNaN.
Proof. exact cci_forgets. Qed.

(* RateOfChange, EfficiencyRatio, MoneyFlowIndex: functions of the last n+1 inputs *)
Theorem C17_roc_forgets : forall p s (h1 h2 : list R), roc_new XROps p = Ok s -> h1 <> [] -> h2 <> [] ->
  lastn (S (N.to_nat p)) h1 = lastn (S (N.to_nat p)) h2 ->
  last (roc_outs s (map Fin h1)) XNaN = last (roc_outs s (map Fin h2)) XNaN.
Proof. exact roc_forgets. Qed.

Theorem C17_er_forgets : forall p s (h1 h2 : list R), er_new XROps p = Ok s -> h1 <> [] -> h2 <> [] ->
  lastn (S (N.to_nat p)) h1 = lastn (S (N.to_nat p)) h2 ->
  last (er_outs s (map Fin h1)) XNaN = last (er_outs s (map Fin h2)) XNaN.
Proof. exact er_forgets. Qed.

Theorem C17_mfi_forgets : forall p s (B1 B2 : list mbar) c1 c2, mfi_new XROps p = Ok s ->
  Forall (fun b => (0 <= rawr b)%R) (B1 ++ [c1]) -> Forall (fun b => (0 <= rawr b)%R) (B2 ++ [c2]) ->
  B1 <> [] -> B2 <> [] ->
  lastn (S (N.to_nat p)) (B1 ++ [c1]) = lastn (S (N.to_nat p)) (B2 ++ [c2]) ->
  last (mfi_outs s (map mkm (B1 ++ [c1]))) XNaN = last (mfi_outs s (map mkm (B2 ++ [c2]))) XNaN.
Proof. exact mfi_forgets. Qed.

(* ---- binary64, within the property's tolerance (Flocq): the output of SimpleMovingAverage after a full history and the output of
        a fresh instance fed only a suffix containing the last n inputs differ by at most tau(t) * M ---- *)
From Coq Require Import Reals Floats.
From Flocq Require Import Core.
From TA Require Import Proofs.Wiring Proofs.FloatErr Proofs.FloatSma.
Theorem C17_sma_binary64_forgets : forall p s xs1 xs2 M, sma_new FOps p = Ok s -> (p < 9007199254740992)%N ->
  (bpow radix2 (-960) <= M)%R -> Forall (okin M) xs1 -> Forall (okin M) xs2 ->
  (3 * ((INR (N.to_nat p) + 2) * M + 1) <= BIG)%R -> (INR (length xs1) * u <= / 16)%R -> xs2 <> [] ->
  (length xs2 <= length xs1)%nat -> lastn (N.to_nat p) xs1 = lastn (N.to_nat p) xs2 ->
  (Rabs (FR (last (sma_outs' FOps s xs1) 0%float) - FR (last (sma_outs' FOps s xs2) 0%float)) <=
   (1 / 10 ^ 12 + 1 / 10 ^ 15 * (INR (length xs1) * R_sqrt.sqrt (INR (length xs1)))) * M)%R.
Proof. exact sma_float_forgets_tau. Qed.
