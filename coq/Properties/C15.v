(* C15 — Composite indicators agree with wiring their public building blocks by hand. Statements only.
   All equalities below are between output streams computed by the standalone definitions, for every
   number type — so they hold bit-for-bit for binary64, with no tolerance. *)
From TA Require Import Base Model Proofs.Wiring.

Theorem C15_atr : forall (F : Type) (O : Ops F) xs bs (tr : @Tr F) (e : @Ema F),
  atr_outs O (mkAtr tr e) xs = ema_outs O e (tr_outs O tr xs) /\
  atr_bar_outs O (mkAtr tr e) bs = ema_outs O e (tr_bar_outs O tr bs).
Proof. intros. split; [apply atr_wiring|apply atr_bar_wiring]. Qed.

Theorem C15_slow : forall (F : Type) (O : Ops F) xs bs (f : @Fast F) (e : @Ema F),
  slow_outs O (mkSlow f e) xs = ema_outs O e (fast_outs O f xs) /\
  slow_bar_outs O (mkSlow f e) bs = ema_outs O e (fast_bar_outs O f bs).
Proof. intros. split; [apply slow_wiring|apply slow_bar_wiring]. Qed.

Theorem C15_macd : forall (F : Type) (O : Ops F) xs (f s g : @Ema F),
  macd_outs O (mkMacd f s g) xs =
  (let line := map2 (sub O) (ema_outs O f xs) (ema_outs O s xs) in
   map2 (fun l sg => [l; sg; sub O l sg]) line (ema_outs O g line)).
Proof. intros. apply macd_wiring. Qed.

Theorem C15_ppo : forall (F : Type) (O : Ops F) xs (f s g : @Ema F),
  ppo_outs O (mkPpo f s g) xs =
  (let line := map2 (fun a b => mul O (div O (sub O a b) b) (c100 O)) (ema_outs O f xs) (ema_outs O s xs) in
   map2 (fun l sg => [l; sg; sub O l sg]) line (ema_outs O g line)).
Proof. intros. apply ppo_wiring. Qed.

Theorem C15_kc : forall (F : Type) (O : Ops F) xs bs p m (a : @Atr F) (e : @Ema F),
  kc_outs O (mkKc p m a e) xs = map2 (bands O m) (ema_outs O e xs) (atr_outs O a xs) /\
  kc_bar_outs O (mkKc p m a e) bs = map2 (bands O m) (ema_outs O e (map (typical O) bs)) (atr_bar_outs O a bs).
Proof. intros. split; [apply kc_wiring|apply kc_bar_wiring]. Qed.

Theorem C15_ce : forall (F : Type) (O : Ops F) bs (a : @Atr F) mn mx m,
  ce_outs O (mkCe a mn mx m) bs =
  map3 (fun at_ lo hi => [sub O hi (mul O at_ m); add O lo (mul O at_ m)])
       (atr_bar_outs O a bs) (min_outs' O mn (map b_low bs)) (max_outs' O mx (map b_high bs)).
Proof. intros. apply ce_wiring. Qed.

(* half-width = multiplier * StandardDeviation of the same period; the middle band is the running mean of that
   StandardDeviation (equal to the SimpleMovingAverage in exact arithmetic: see C01 / XSd) *)
Theorem C15_bb : forall (F : Type) (O : Ops F) xs p m (sd : @Sd F),
  bb_outs O (mkBb p m sd) xs =
  map (fun '(mean, dev) => [mean; add O mean (mul O dev m); sub O mean (mul O dev m)]) (sd_mean_outs O sd xs) /\
  map snd (sd_mean_outs O sd xs) = sd_outs O sd xs.
Proof. intros. split; [apply bb_wiring|apply sd_mean_outs_snd]. Qed.

Theorem C15_cci : forall (F : Type) (O : Ops F) bs (sm : @Sma F) (md : @Mad F),
  cci_outs O (mkCci sm md) bs =
  map3 (fun tp sma mad => if eqb O mad (zero O) then zero O else div O (sub O tp sma) (mul O mad (c0_015 O)))
       (map (typical O) bs) (sma_outs' O sm (map (typical O) bs)) (mad_outs O md (map (typical O) bs)).
Proof. intros. apply cci_wiring. Qed.

(* exact arithmetic: BollingerBands.average is SimpleMovingAverage of the same period on every stream *)
From Coq Require Import Reals.
From TA Require Import XR Proofs.XBase Proofs.XSma Proofs.XSd.
Theorem C15_bb_average_is_sma : forall p mu b s xs, bb_new XROps p (Fin mu) = Ok b -> sma_new XROps p = Ok s ->
  map (fun o => hd XNaN o) (XSd.bb_outs b (map Fin xs)) = sma_outs s (map Fin xs).
Proof. exact bb_average_is_sma. Qed.

(* binary64: BollingerBands.average (first output; the Welford running mean) and SimpleMovingAverage of the same period fed the same
   inputs differ by at most (28 t + 2) * 2^-53 * M after t inputs, which is inside the tolerance tau(t) * M of the property —
   for every period < 2^40, every stream of at most 2^40 - 2 finite inputs of magnitude at most M, 1 <= M <= 2^400.
   (Both are within a multiple of t * 2^-53 * M of the exact mean of the window: C01_sma_binary64_error and sd_mean_float_error.) *)
From Coq Require Import List Floats.
From Flocq Require Import Core.
From TA Require Import FloatInst Proofs.Ring Proofs.FloatErr Proofs.FloatSma Proofs.FloatSdMean.
Theorem C15_bb_average_binary64_vs_sma : forall p mu b sm xs M, bb_new FOps p mu = Ok b -> sma_new FOps p = Ok sm -> (p < 1099511627776)%N ->
  (1 <= M)%R -> (M <= bpow radix2 400)%R -> Forall (okin M) xs -> (INR (length xs) + 2 <= bpow radix2 40)%R ->
  Forall2 (fun ab hh => let avg := hd 0%float (fst ab) in
             finF avg /\ finF (snd ab) /\ (Rabs (FR avg - FR (snd ab)) <= (28 * INR (length hh) + 2) * u * M)%R)
          (combine (Wiring.bb_outs FOps b xs) (Wiring.sma_outs' FOps sm xs)) (prefixes_from [] xs).
Proof. exact bb_average_vs_sma_float. Qed.
Theorem C15_bb_average_binary64_within_tau : forall p mu b sm xs M, bb_new FOps p mu = Ok b -> sma_new FOps p = Ok sm -> (p < 1099511627776)%N ->
  (1 <= M)%R -> (M <= bpow radix2 400)%R -> Forall (okin M) xs -> (INR (length xs) + 2 <= bpow radix2 40)%R ->
  Forall2 (fun ab hh => let avg := hd 0%float (fst ab) in let t := INR (length hh) in
             finF avg /\ finF (snd ab) /\ (Rabs (FR avg - FR (snd ab)) <= (1 / 10 ^ 12 + 1 / 10 ^ 15 * (t * R_sqrt.sqrt t)) * M)%R)
          (combine (Wiring.bb_outs FOps b xs) (Wiring.sma_outs' FOps sm xs)) (prefixes_from [] xs).
Proof. exact bb_average_vs_sma_within_tau. Qed.
(* the running mean itself against the exact mean of the last min(t, n) inputs *)
Theorem C15_sd_mean_binary64_error : forall p s xs M, sd_new FOps p = Ok s -> (p < 9007199254740992)%N ->
  (1 <= M)%R -> (M <= bpow radix2 400)%R -> Forall (okin M) xs -> (INR (length xs) + 2 <= bpow radix2 40)%R ->
  Forall2 (fun md hh => finF (fst md) /\
            (Rabs (FR (fst md) - mean (map FR (lastn (N.to_nat p) hh))) <= 14 * INR (length hh) * u * M)%R)
          (Wiring.sd_mean_outs FOps s xs) (prefixes_from [] xs).
Proof. exact sd_mean_float_error. Qed.
