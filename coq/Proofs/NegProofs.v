(* Maximum(x) = -Minimum(-x), exactly, for every number type whose negation reverses the comparison. *)
From Coq Require Import Lia.
From TA Require Import Base Model Proofs.Prims Proofs.MinMaxProofs.
Open Scope N_scope.

Section Neg.
Context {F : Type} (O : Ops F).

Record neg_reverses : Prop := {
  nr_lt : forall a b, ltb O (neg O a) (neg O b) = ltb O b a;
  nr_inv : forall a, neg O (neg O a) = a;
  nr_inf : neg O (inf O) = ninf O }.

Hypothesis NR : neg_reverses.

Lemma neg_ninf : neg O (ninf O) = inf O.
Proof. rewrite <- (nr_inf NR). apply (nr_inv NR). Qed.

Lemma find_flip (dq : list F) : find_max_index O dq = find_min_index O (map (neg O) dq).
Proof.
  unfold find_max_index, find_min_index.
  assert (G : forall l m idx i,
     (let '(_, a, _) := fold_left (fun '(m, index, i) val => if ltb O m val then (val, i, i + 1) else (m, index, i + 1)) l (m, idx, i) in a) =
     (let '(_, a, _) := fold_left (fun '(m, index, i) val => if ltb O val m then (val, i, i + 1) else (m, index, i + 1)) (map (neg O) l) (neg O m, idx, i) in a)).
  { induction l as [|v l IH]; intros m idx i; [reflexivity|]. cbn [fold_left map].
    rewrite (nr_lt NR). destruct (ltb O m v); apply IH. }
  rewrite <- neg_ninf. apply G.
Qed.

Lemma set_nth_map (dq : list F) i x : map (neg O) (set_nth dq i x) = set_nth (map (neg O) dq) i (neg O x).
Proof. unfold set_nth. rewrite map_app, firstn_map. cbn [map]. rewrite skipn_map. reflexivity. Qed.

Definition rel (mx : @Max F) (mn : @Min F) : Prop :=
  min_period mn = max_period mx /\ min_min_index mn = max_max_index mx /\ min_cur_index mn = max_cur_index mx /\
  min_deque mn = map (neg O) (max_deque mx).

Lemma step_rel mx mn x : rel mx mn ->
  match max_next O mx x, min_next O mn (neg O x) with
  | Ok (mx', o), Ok (mn', o') => rel mx' mn' /\ o' = neg O o
  | Panic, Panic => True
  | Err _, Err _ => True
  | _, _ => False end.
Proof.
  intros (Hp & Hmi & Hci & Hdq). unfold max_next, min_next. rewrite Hp, Hmi, Hci, Hdq.
  unfold upd. rewrite map_length.
  destruct (Nat.ltb_spec (N.to_nat (max_cur_index mx)) (length (max_deque mx))) as [Hlt|Hge]; cbn [bind]; [|exact I].
  fold (set_nth (max_deque mx) (N.to_nat (max_cur_index mx)) x).
  fold (set_nth (map (neg O) (max_deque mx)) (N.to_nat (max_cur_index mx)) (neg O x)).
  rewrite <- set_nth_map. set (dq := set_nth (max_deque mx) (N.to_nat (max_cur_index mx)) x).
  unfold idx. rewrite nth_error_map.
  destruct (nth_error dq (N.to_nat (max_max_index mx))) as [cm|]; cbn [option_map bind]; [|exact I].
  rewrite (nr_lt NR). rewrite <- find_flip.
  set (mi := if ltb O cm x then max_cur_index mx else if max_max_index mx =? max_cur_index mx then find_max_index O dq else max_max_index mx).
  destruct (advance (max_period mx) (max_cur_index mx)) as [ci| |]; cbn [bind]; try exact I.
  rewrite nth_error_map. destruct (nth_error dq (N.to_nat mi)) as [o|]; cbn [option_map bind]; [|exact I].
  split; [|reflexivity]. unfold rel; cbn. auto.
Qed.

Lemma outs_rel : forall xs mx mn, rel mx mn ->
  map (neg O) (max_outs O mx xs) = min_outs O mn (map (neg O) xs).
Proof.
  induction xs as [|x xs IH]; intros mx mn R; [reflexivity|]. cbn [max_outs min_outs map].
  pose proof (step_rel mx mn x R) as S.
  destruct (max_next O mx x) as [[mx' o]| |], (min_next O mn (neg O x)) as [[mn' o']| |]; try contradiction; try reflexivity.
  destruct S as [R' ->]. cbn [map]. f_equal. apply IH. exact R'.
Qed.

Theorem max_is_neg_min : forall (p : N) (xs : list F),
  max_outs O (mkMax p 0 0 (repeat (ninf O) (N.to_nat p))) xs =
  map (neg O) (min_outs O (mkMin p 0 0 (repeat (inf O) (N.to_nat p))) (map (neg O) xs)).
Proof.
  intros p xs. rewrite <- (outs_rel xs (mkMax p 0 0 (repeat (ninf O) (N.to_nat p)))).
  - rewrite map_map. rewrite <- (map_id (max_outs O _ xs)) at 1. apply map_ext. intros a. symmetry. apply (nr_inv NR).
  - unfold rel; cbn. repeat split; try reflexivity. rewrite map_repeat'. rewrite neg_ninf. reflexivity.
Qed.

End Neg.
