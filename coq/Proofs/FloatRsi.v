(* RelativeStrengthIndex on binary64 stays in [0, 100 + 300 * 2^-53] whenever its denominator (up + down average) is not zero:
   both averages are float EMAs of non-negative moves, hence finite and >= 0; the sum is at least the up-average by monotone rounding;
   multiplying a float by the integer 100 has a purely relative rounding error (exact in the subnormal range). *)
From Coq Require Import Reals Lra Lia ZArith List Floats.
From Flocq Require Import Core BinarySingleNaN PrimFloat Relative.
From TA Require Import Base Model FloatInst Proofs.Prims Proofs.WF Proofs.FloatErr Proofs.FloatSma Proofs.FloatEma Proofs.FloatSd Proofs.FloatFast Proofs.FloatMad Proofs.Wiring Proofs.Osc Proofs.FloatMacd Proofs.FloatBb Proofs.FloatKc Proofs.FloatBars Proofs.FloatEr.
Import ListNotations.
Open Scope R_scope.
Local Notation O := FOps.
Local Notation float := PrimFloat.float.
Local Notation fexp := (SpecFloat.fexp prec emax).
Local Notation RN := (round radix2 fexp (round_mode mode_NE)).

(* an integer multiple of a float rounds with a purely relative error: below 2^-1022 it is representable *)
Lemma RN_mulint_rel (k : Z) (x : R) : generic_format radix2 fexp x ->
  exists eps, Rabs eps <= u /\ RN (IZR k * x) = IZR k * x * (1 + eps).
Proof.
  intros Fx. destruct (Rle_dec (bpow radix2 (-1022)) (Rabs (IZR k * x))) as [Hn|Hs].
  - destruct (relative_error_N_FLT_ex radix2 (3 - emax - prec) prec ltac:(reflexivity) (fun z => negb (Z.even z)) (IZR k * x)) as (eps & He & E).
    + change (3 - emax - prec + prec - 1)%Z with (-1022)%Z. exact Hn.
    + exists eps. split; [exact He|exact E].
  - exists 0. split; [rewrite Rabs_R0; pose proof u_pos; lra|]. rewrite Rplus_0_r, Rmult_1_r.
    apply round_generic; [apply valid_rnd_round_mode|].
    unfold generic_format in Fx. set (m := Ztrunc (scaled_mantissa radix2 fexp x)) in *. set (e := cexp radix2 fexp x) in *.
    assert (Ek : F2R (Float radix2 (k * m) e) = IZR k * x) by (rewrite Fx; unfold F2R; cbn [Fnum Fexp]; rewrite mult_IZR; ring).
    rewrite <- Ek. apply generic_format_F2R. intros Hnz.
    assert (Hlt : Rabs (F2R (Float radix2 (k * m) e)) < bpow radix2 (-1022)) by (rewrite Ek; lra).
    assert (Hmag : (mag radix2 (F2R (Float radix2 (k * m) e)) <= -1022)%Z) by (apply mag_le_bpow; [apply F2R_neq_0; exact Hnz|exact Hlt]).
    assert (He : (3 - emax - prec <= e)%Z) by (unfold e, cexp, SpecFloat.fexp, SpecFloat.emin; apply Z.le_max_r).
    unfold cexp. remember (mag radix2 (F2R (Float radix2 (k * m) e))) as MG. clear HeqMG.
    unfold SpecFloat.fexp, SpecFloat.emin. apply Z.max_lub; [|exact He].
    change prec with 53%Z in *. change emax with 1024%Z in *. lia.
Qed.

Lemma FR_100' : FR 100%float = 100. Proof. apply FR_100. Qed.

(* 100 * U for a finite non-negative U *)
Lemma fmul100_rel (U : float) : finF U -> 0 <= FR U -> 100 * FR U <= BIG ->
  finF (100 * U)%float /\ exists eps, Rabs eps <= u /\ FR (100 * U)%float = 100 * FR U * (1 + eps).
Proof.
  intros FU HU Hb. destruct (fmul_exact 100%float U) as [F E]; [reflexivity|exact FU|rewrite FR_100, Rabs_pos_eq; lra|].
  split; [exact F|]. rewrite E, FR_100. apply (RN_mulint_rel 100 (FR U)). apply FR_fmt.
Qed.

Lemma FR_c01 : 0 <= FR (c0_1 O) <= 1. Proof. cbn [c0_1 O]. unfold FR. cbn. unfold F2R. cbn. lra. Qed.
Lemma finF_c01 : finF (c0_1 O). Proof. reflexivity. Qed.

Definition mv_ok (M : R) (x : float) : Prop := finF x /\ 0 <= FR x <= 3 * M.

Lemma rsi_moves_ok M : 1 <= M -> M <= bpow radix2 990 -> forall xs is_new prev, okin M prev -> Forall (okin M) xs ->
  Forall (fun ud => mv_ok M (fst ud) /\ mv_ok M (snd ud)) (rsi_moves O is_new prev xs).
Proof.
  intros HM1 HM2. pose proof u_pos as Hu0. pose proof u_le as Hu1. pose proof eta_pos as He0. pose proof eta_le_u as Heu.
  assert (HMB : 4 * M <= BIG).
  { unfold BIG. apply Rle_trans with (4 * bpow radix2 990); [lra|]. change 4 with (bpow radix2 2). rewrite <- bpow_plus. apply bpow_le. lia. }
  assert (HuM : u * M <= / 1000 * M) by (apply Rmult_le_compat_r; lra).
  assert (HeM : eta <= u * M) by (apply Rle_trans with (u * 1); [lra|apply Rmult_le_compat_l; lra]).
  assert (Hz : mv_ok M 0%float) by (split; [exact finF_zero|rewrite FR_zero; lra]).
  assert (Hsub : forall a b : float, okin M a -> okin M b -> FR b <= FR a -> mv_ok M (a - b)%float).
  { intros a b [Fa Ha] [Fb Hb] Hle. assert (Hd : Rabs (FR a - FR b) <= 2 * M) by (eapply Rle_trans; [apply Rabs_triang|]; rewrite Rabs_Ropp; lra).
    destruct (fsub_exact a b Fa Fb) as [F1 E1]; [lra|]. destruct (fsub_mag a b (2 * M) Fa Fb Hd) as [_ M1]; [lra|].
    assert (H0 : 0 <= FR (a - b)%float) by (rewrite E1; apply RN_nonneg; lra).
    split; [exact F1|]. split; [exact H0|]. rewrite Rabs_pos_eq in M1 by exact H0. eapply Rle_trans; [exact M1|]. assert (2 * M * u <= 2 * (/ 1000 * M)) by lra. lra. }
  induction xs as [|x xs IH]; intros is_new prev Hp Hxs; [constructor|].
  pose proof (Forall_inv Hxs) as Hx. cbn [rsi_moves]. constructor; [|apply IH; [exact Hx|exact (Forall_inv_tail Hxs)]].
  destruct is_new.
  - cbn [fst snd]. pose proof FR_c01. split; (split; [exact finF_c01|lra]).
  - destruct (ltb O prev x) eqn:El; cbn [fst snd zero O].
    + split; [|exact Hz]. apply Hsub; try assumption. cbn [ltb O] in El. rewrite ltb_equiv in El. destruct Hp as [Fp _]. destruct Hx as [Fx _].
      unfold finF, FR in *. rewrite Bltb_correct in El by assumption. destruct (Rlt_bool_spec (B2R (Prim2B prev)) (B2R (Prim2B x))); [lra|discriminate].
    + split; [exact Hz|]. apply Hsub; try assumption. apply ltb_false_le; [apply Hp|apply Hx|exact El].
Qed.

Definition rsi_hi : R := 100 + 300 * u.

(* one output: 100 * U / (U + D) for finite non-negative averages *)
Lemma rsi_ratio_range (U D : float) B : 1 <= B -> 200 * B <= BIG -> finF U -> 0 <= FR U <= B -> finF D -> 0 <= FR D <= B ->
  let o := (100 * U / (U + D))%float in
  Prim2B o = B754_nan \/ (finF o /\ 0 <= FR o <= rsi_hi).
Proof.
  intros HB1 HBB FU [HU0 HU] FD [HD0 HD] o. pose proof u_pos as Hu0. pose proof u_le as Hu1. pose proof eta_pos as He0. pose proof eta_le_u as Heu. pose proof BIG_ge as HBg.
  destruct (fmul100_rel U FU HU0 ltac:(lra)) as (Fa & e1 & He1 & Ra). set (a := (100 * U)%float) in *.
  destruct (fadd_exact U D FU FD) as [Fs Es]; [rewrite Rabs_pos_eq; lra|]. set (s := (U + D)%float) in *.
  assert (HsU : FR U <= FR s) by (rewrite Es, <- (RN_FR U) at 1; apply RN_le; lra).
  pose proof (Rabs_le_inv _ _ He1) as He1'.
  assert (Ha0 : 0 <= FR a) by (rewrite Ra; apply Rmult_le_pos; [lra|lra]).
  destruct (Req_dec (FR s) 0) as [Hz|Hnz].
  - left. (* both averages are zeros: 0 / 0 *)
    assert (EU : FR U = 0) by lra. assert (Ea : FR a = 0) by (rewrite Ra, EU; ring).
    unfold o. fold a s. rewrite div_equiv. unfold FR, finF in *.
    destruct (Prim2B a) as [sa|sa| |sa ma ea Hba] eqn:Pa; try discriminate.
    + destruct (Prim2B s) as [ss|ss| |ss ms es Hbs] eqn:Ps; try discriminate; [reflexivity|].
      exfalso. cbn in Hz. apply (F2R_neq_0 radix2 (Float radix2 (cond_Zopp ss (Z.pos ms)) es)); [destruct ss; cbn; lia|exact Hz].
    + exfalso. cbn in Ea. apply (F2R_neq_0 radix2 (Float radix2 (cond_Zopp sa (Z.pos ma)) ea)); [destruct sa; cbn; lia|exact Ea].
  - right. assert (Hspos : 0 < FR s) by lra.
    set (r := FR a / FR s).
    assert (Hr0 : 0 <= r) by (apply Rmult_le_pos; [exact Ha0|apply Rlt_le, Rinv_0_lt_compat; exact Hspos]).
    assert (Hr1 : r <= 100 * (1 + u)).
    { unfold r. apply Rmult_le_reg_r with (FR s); [exact Hspos|]. replace (FR a / FR s * FR s) with (FR a) by (field; lra). rewrite Ra.
      apply Rle_trans with (100 * FR U * (1 + u)); [apply Rmult_le_compat_l; lra|]. nra. }
    destruct (fdiv_err a s Fa Hnz) as (Fo & e & n & He & Hn & Ro); [fold r; rewrite Rabs_pos_eq by exact Hr0; lra|].
    destruct (fdiv_exact a s Fa Hnz) as [_ Eo]; [fold r; rewrite Rabs_pos_eq by exact Hr0; lra|].
    unfold o. fold a s. split; [exact Fo|]. split; [rewrite Eo; apply RN_nonneg; exact Hr0|].
    rewrite Ro. fold r. unfold rsi_hi. pose proof (Rabs_le_inv _ _ He) as He'. pose proof (Rabs_le_inv _ _ Hn) as Hn'. nra.
Qed.

Theorem rsi_float_range : forall p s xs M, rsi_new O p = Ok s -> (p < 35184372088832)%N ->
  1 <= M -> M <= bpow radix2 900 -> Forall (okin M) xs ->
  Forall (fun o => Prim2B o = B754_nan \/ (finF o /\ 0 <= FR o <= rsi_hi)) (rsi_outs O s xs).
Proof.
  intros p s xs M H Hp HM1 HM2 Hxs. unfold rsi_new in H.
  destruct (ema_new O p) as [e| |] eqn:Ee; cbn [bind] in H; try discriminate. injection H as <-.
  rewrite rsi_wiring. change (zero O) with 0%float.
  assert (HM990 : M <= bpow radix2 990) by (eapply Rle_trans; [exact HM2|apply bpow_le; lia]).
  pose proof (rsi_moves_ok M HM1 HM990 xs true 0%float (okin_zero M ltac:(lra)) Hxs) as Hmv.
  set (mv := rsi_moves O true 0%float xs) in *.
  assert (Hup : Forall (fun x => finF x /\ 0 <= FR x <= 3 * M) (map fst mv)).
  { clear -Hmv. induction Hmv as [|ud l [A _] _ IH]; [constructor|]. cbn [map]. constructor; [exact A|exact IH]. }
  assert (Hdn : Forall (fun x => finF x /\ 0 <= FR x <= 3 * M) (map snd mv)).
  { clear -Hmv. induction Hmv as [|ud l [_ A] _ IH]; [constructor|]. cbn [map]. constructor; [exact A|exact IH]. }
  assert (H6 : 2 * (3 * M) <= bpow radix2 990).
  { apply Rle_trans with (bpow radix2 3 * bpow radix2 900); [change (bpow radix2 3) with 8; lra|]. rewrite <- bpow_plus. apply bpow_le. lia. }
  destruct (ema_float_nonneg p e _ (3 * M) Ee Hp ltac:(lra) H6 Hup) as [Lu Fu].
  destruct (ema_float_nonneg p e _ (3 * M) Ee Hp ltac:(lra) H6 Hdn) as [Ld Fd].
  apply (Forall_map2 (fun o => finF o /\ 0 <= FR o <= 2 * (3 * M)) (fun o => finF o /\ 0 <= FR o <= 2 * (3 * M))); [|exact Fu|exact Fd].
  intros U D (FU & HU) (FD & HD). cbn [div mul add c100 O].
  apply (rsi_ratio_range U D (2 * (3 * M))); try assumption; [lra|].
  unfold BIG. apply Rle_trans with (bpow radix2 11 * bpow radix2 900); [change (bpow radix2 11) with 2048; lra|]. rewrite <- bpow_plus. apply bpow_le. lia.
Qed.
