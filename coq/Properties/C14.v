(* C14 — Outputs are covariant with the price unit: rescaling / shifting act as in the math. Statements only.
   Exact arithmetic: multiplying every price by c multiplies the price-valued outputs by c; adding d shifts the levels by d. *)
From Coq Require Import Reals.
From TA Require Import Base Model XR Proofs.Ring Proofs.XBase Proofs.XSma Proofs.XWma Proofs.XMad Proofs.XSd Proofs.Wiring Proofs.XEma Proofs.XCor
  Proofs.MinMaxProofs Proofs.NegProofs.
Open Scope R_scope.

Theorem C14_sma_scale : forall p s c xs, sma_new XROps p = Ok s ->
  sma_outs s (map Fin (map (Rmult c) xs)) = map (fun o => mul XROps (Fin c) o) (sma_outs s (map Fin xs)).
Proof. exact sma_scale. Qed.
Theorem C14_wma_scale : forall p s c xs, wma_new XROps p = Ok s ->
  wma_outs s (map Fin (map (Rmult c) xs)) = map (fun o => mul XROps (Fin c) o) (wma_outs s (map Fin xs)).
Proof. exact wma_scale. Qed.
Theorem C14_sd_scale : forall p s c xs, sd_new XROps p = Ok s -> 0 <= c ->
  XSd.sd_outs s (map Fin (map (Rmult c) xs)) = map (fun o => mul XROps (Fin c) o) (XSd.sd_outs s (map Fin xs)).
Proof. exact sd_scale. Qed.
Theorem C14_mad_scale : forall p s c xs, mad_new XROps p = Ok s -> 0 <= c ->
  XMad.mad_outs s (map Fin (map (Rmult c) xs)) = map (fun o => mul XROps (Fin c) o) (XMad.mad_outs s (map Fin xs)).
Proof. exact mad_scale. Qed.
Theorem C14_ema_scale : forall p s c xs, ema_new XROps p = Ok s ->
  ema_outs XROps s (map Fin (map (Rmult c) xs)) = map (fun o => mul XROps (Fin c) o) (ema_outs XROps s (map Fin xs)).
Proof. exact ema_scale. Qed.
Theorem C14_sma_shift : forall p s d xs, sma_new XROps p = Ok s ->
  sma_outs s (map Fin (map (Rplus d) xs)) = map (fun o => add XROps (Fin d) o) (sma_outs s (map Fin xs)).
Proof. exact sma_shift. Qed.
Theorem C14_ema_shift : forall p s d xs, ema_new XROps p = Ok s ->
  ema_outs XROps s (map Fin (map (Rplus d) xs)) = map (fun o => add XROps (Fin d) o) (ema_outs XROps s (map Fin xs)).
Proof. exact ema_shift. Qed.

(* Maximum(x) = -Minimum(-x) exactly, on every stream, for every number type whose negation reverses the comparison
   (IEEE negation on binary64 does, bit-exactly; so do the reals) *)
Theorem C14_max_is_neg_min : forall (F : Type) (O : Ops F) (p : N) (xs : list F),
  neg_reverses O ->
  max_outs O (mkMax p 0 0 (repeat (ninf O) (N.to_nat p))) xs =
  map (neg O) (min_outs O (mkMin p 0 0 (repeat (inf O) (N.to_nat p))) (map (neg O) xs)).
Proof. intros F O p xs NR. exact (max_is_neg_min O NR p xs). Qed.
