#!/bin/bash
# independent re-check of every compiled property file and everything it depends on (several minutes)
cd "$(dirname "$(readlink -f "$0")")/../coq" && coq_makefile -f _CoqProject -o Makefile >/dev/null && timeout 3000 make -j16 >/dev/null 2>&1
mods=""; for i in 01 02 03 04 05 06 07 08 09 10 11 12 13 14 15 16 17 18; do mods="$mods TA.Properties.C$i"; done
timeout 3000 coqchk -o -silent -Q . TA $mods 2>&1 | awk '/CONTEXT SUMMARY/,0' | grep -v "Coq.Floats\|Coq.Numbers.Cyclic"
