(* C10, one-price bars: FastStochastic, SlowStochastic (any carrier whose == is symmetric), TrueRange, ATR and
   KeltnerChannel (exact carrier, finite prices) fed a bar with high = low = close = x take exactly the step of their
   scalar path on x — state and output; open and volume are arbitrary. *)
From Coq Require Import Reals Lra List NArith.
From TA Require Import Base Model XR Proofs.Prims Proofs.WF Proofs.GenericProofs Proofs.XBase Proofs.Wiring Proofs.XEma.
Import ListNotations.

Definition one_bar {F} (o v x : F) : Bar F := mkBar o x x x v.

Section G.
Context {F : Type} (OF : Ops F).
Hypothesis eqb_sym : forall a b : F, eqb OF a b = eqb OF b a.

Theorem fast_one_price : forall (f : @Fast F) o v x, wf_fast f ->
  fast_next_bar OF f (one_bar o v x) = fast_next OF f x.
Proof.
  intros f o v x (W1 & W2 & _). unfold fast_next_bar, fast_next, one_bar. cbn [b_high b_low b_close].
  destruct (min_next_ok OF _ x W1) as (mn & lo & E1 & _). destruct (max_next_ok OF _ x W2) as (mx & hi & E2 & _).
  rewrite E1, E2. cbn [bind]. rewrite (eqb_sym hi lo). reflexivity.
Qed.

Theorem slow_one_price : forall (s : @Slow F) o v x, wf_slow OF s ->
  slow_next_bar OF s (one_bar o v x) = slow_next OF s x.
Proof. intros s o v x (W & _). unfold slow_next_bar, slow_next. rewrite fast_one_price by exact W. reflexivity. Qed.
End G.

(* the exact carrier: == is symmetric *)
Lemma xr_eqb_sym a b : eqb XROps a b = eqb XROps b a.
Proof.
  destruct a as [x| | |], b as [y| | |]; try reflexivity. cbn. unfold xr_eqb.
  destruct (Req_EM_T x y), (Req_EM_T y x); try reflexivity; congruence.
Qed.

Open Scope R_scope.
Local Notation O := XROps.

Definition fin_tr (t : @Tr XR) : Prop := match tr_prev_close t with Some (Fin _) | None => True | _ => False end.

Theorem tr_one_price : forall (t : @Tr XR) o v x, fin_tr t ->
  tr_next_bar O t (one_bar o v (Fin x)) = tr_next O t (Fin x).
Proof.
  intros t o v x Ht. unfold tr_next_bar, tr_next, one_bar, fin_tr in *. cbn [b_high b_low b_close].
  destruct (tr_prev_close t) as [[pc| | |]|]; try contradiction.
  - f_equal. xfin. unfold max3. rewrite !fmax_fin. f_equal.
    replace (x - x) with 0 by lra. rewrite (Rmax_right 0) by apply Rabs_pos. apply Rmax_left. lra.
  - f_equal. xfin. f_equal. lra.
Qed.

Lemma tr_next_fin (t : @Tr XR) x : fin_tr (fst (tr_next O t (Fin x))).
Proof. exact I. Qed.

Theorem atr_one_price : forall (a : @Atr XR) o v x, fin_tr (atr_true_range a) ->
  atr_next_bar O a (one_bar o v (Fin x)) = atr_next O a (Fin x).
Proof. intros a o v x Ht. unfold atr_next_bar, atr_next. rewrite tr_one_price by exact Ht. reflexivity. Qed.

Theorem kc_one_price : forall (k : @Kc XR) o v x, fin_tr (atr_true_range (kc_atr k)) ->
  kc_next_bar O k (one_bar o v (Fin x)) = kc_next O k (Fin x).
Proof.
  intros k o v x Ht. unfold kc_next_bar, kc_next. rewrite atr_one_price by exact Ht.
  unfold one_bar. cbn [b_close b_high b_low]. xfin. rewrite xr_div_fin by lra.
  replace ((x + x + x) / 3) with x by lra.
  destruct (atr_next O (kc_atr k) (Fin x)) as [a atr]. destruct (ema_next O (kc_ema k) (Fin x)) as [e av]. reflexivity.
Qed.

(* whole streams from fresh instances *)
Lemma tr_one_stream : forall xs (t : @Tr XR) o v, fin_tr t ->
  tr_bar_outs O t (map (fun x => one_bar o v (Fin x)) xs) = tr_outs O t (map Fin xs).
Proof.
  induction xs as [|x xs IH]; intros t o v Ht; [reflexivity|]. cbn [map tr_bar_outs tr_outs].
  rewrite tr_one_price by exact Ht. destruct (tr_next O t (Fin x)) as [t' d] eqn:E. f_equal.
  apply IH. unfold tr_next in E. injection E as <- _. exact I.
Qed.

Theorem atr_one_stream : forall p a xs o v, atr_new O p = Ok a ->
  atr_bar_outs O a (map (fun x => one_bar o v (Fin x)) xs) = atr_outs O a (map Fin xs).
Proof.
  intros p a xs o v H. unfold atr_new in H. destruct (ema_new O p) as [e| |]; cbn in H; try discriminate. injection H as <-.
  rewrite atr_bar_wiring, atr_wiring. f_equal. apply tr_one_stream. exact I.
Qed.

(* binary64: == is symmetric for every pair of floats (NaN, infinities and signed zeros included), so the one-price
   equality of FastStochastic / SlowStochastic is bit-exact on every input *)
From Coq Require Import Floats SpecFloat ZArith.
From TA Require Import FloatInst.
Lemma SFeqb_sym a b : SFeqb a b = SFeqb b a.
Proof.
  unfold SFeqb, SFcompare.
  destruct a as [sa|sa| |sa ma ea], b as [sb|sb| |sb mb eb]; try reflexivity;
    try (destruct sa, sb; reflexivity).
  change (Pcompare ma mb Eq) with (Pos.compare ma mb). change (Pcompare mb ma Eq) with (Pos.compare mb ma).
  destruct sa, sb; try reflexivity;
    rewrite (Z.compare_antisym ea eb); destruct (ea ?= eb)%Z; cbn; try reflexivity;
    rewrite (Pos.compare_antisym ma mb); destruct (ma ?= mb)%positive; reflexivity.
Qed.
Lemma float_eqb_sym (a b : float) : Base.eqb FOps a b = Base.eqb FOps b a.
Proof. cbn [Base.eqb FOps]. rewrite !FloatAxioms.eqb_spec. apply SFeqb_sym. Qed.

Theorem fast_one_price_binary64 : forall (f : @Fast float) o v x, wf_fast f ->
  fast_next_bar FOps f (one_bar o v x) = fast_next FOps f x.
Proof. exact (fast_one_price FOps float_eqb_sym). Qed.
Theorem slow_one_price_binary64 : forall (s : @Slow float) o v x, wf_slow FOps s ->
  slow_next_bar FOps s (one_bar o v x) = slow_next FOps s x.
Proof. exact (slow_one_price FOps float_eqb_sym). Qed.
